package props

// C33 Styled text stays normalised and keeps its content.
//
// Oracle: an independent model of styled text (a list of (style, bytes) runs
// with its own normaliser, its own styling transformers, its own partition /
// split / trim / builder semantics written from the godoc of pkg/ui) is run
// next to the real ui operations. After every operation the real result must
// (a) be in the normal form promised by the godoc of ui.Text (nil when empty,
// no empty segment, no two adjacent segments of equal style) and (b) carry
// exactly the styled content the model computes.
//
//   C33/ops        random operation histories over a pool of texts
//   C33/styledown  Derender -> Render round trip with generated style definitions

import (
	"fmt"
	"sort"
	"strings"
	"unicode/utf8"

	"pgregory.net/rapid"
	"src.elv.sh/pkg/ui"
	"src.elv.sh/pkg/ui/styledown"
	"src.elv.sh/pkg/wcwidth"
	"verif/vs"
)

// ---- model ----------------------------------------------------------------------

// c33Style mirrors ui.Style; colors are their canonical names ("" = default).
type c33Style struct {
	Fg, Bg                                       string
	Bold, Dim, Italic, Underlined, Blink, Invert bool
}

type c33Seg struct {
	St   c33Style
	Text string
}

type c33Text []c33Seg

func c33Norm(t c33Text) c33Text {
	var out c33Text
	for _, s := range t {
		if s.Text == "" {
			continue
		}
		if n := len(out); n > 0 && out[n-1].St == s.St {
			out[n-1].Text += s.Text
		} else {
			out = append(out, s)
		}
	}
	return out
}

func (t c33Text) plain() string {
	var sb strings.Builder
	for _, s := range t {
		sb.WriteString(s.Text)
	}
	return sb.String()
}

func (t c33Text) String() string {
	var sb strings.Builder
	sb.WriteString("[")
	for i, s := range t {
		if i > 0 {
			sb.WriteString(" ")
		}
		fmt.Fprintf(&sb, "%q{%s}", s.Text, strings.Join(c33StyleWords(s.St), " "))
	}
	sb.WriteString("]")
	return sb.String()
}

// c33Colors is the palette: the 16 named colors, xterm-256 and true colors.
var c33Colors = []string{"red", "green", "blue", "black", "white", "yellow", "magenta", "cyan",
	"bright-red", "bright-black", "bright-white", "bright-cyan", "color0", "color7", "color123", "color255", "#000000", "#ff0000", "#0a0b0c", "#ffffff"}

// c33Stylings is the vocabulary of styling transformers used in cases. "reset"
// is ui.Reset; everything else is spelled as ui.ParseStyling documents it.
var c33Stylings = func() []string {
	out := []string{"reset", "fg-default", "bg-default", "default"}
	for _, f := range []string{"bold", "dim", "italic", "underlined", "blink", "inverse"} {
		out = append(out, f, "no-"+f, "toggle-"+f)
	}
	for _, c := range c33Colors {
		out = append(out, "fg-"+c, "bg-"+c)
	}
	out = append(out, "red", "bright-cyan", "color123", "#0a0b0c") // bare color = foreground
	return out
}()

// c33Apply is the model of one styling transformer.
func c33Apply(st c33Style, word string) c33Style {
	field := func(name string) *bool {
		switch name {
		case "bold":
			return &st.Bold
		case "dim":
			return &st.Dim
		case "italic":
			return &st.Italic
		case "underlined":
			return &st.Underlined
		case "blink":
			return &st.Blink
		case "inverse":
			return &st.Invert
		}
		return nil
	}
	switch {
	case word == "reset":
		return c33Style{}
	case word == "default" || word == "fg-default":
		st.Fg = ""
	case word == "bg-default":
		st.Bg = ""
	case strings.HasPrefix(word, "fg-"):
		st.Fg = word[3:]
	case strings.HasPrefix(word, "bg-"):
		st.Bg = word[3:]
	case strings.HasPrefix(word, "no-"):
		*field(word[3:]) = false
	case strings.HasPrefix(word, "toggle-"):
		p := field(word[7:])
		*p = !*p
	default:
		if p := field(word); p != nil {
			*p = true
		} else {
			st.Fg = word
		}
	}
	return st
}

func c33ApplyAll(st c33Style, words []string) c33Style {
	for _, w := range words {
		st = c33Apply(st, w)
	}
	return st
}

// c33StyleWords spells a style as styling words that produce it from the zero style.
func c33StyleWords(st c33Style) []string {
	var w []string
	if st.Fg != "" {
		w = append(w, "fg-"+st.Fg)
	}
	if st.Bg != "" {
		w = append(w, "bg-"+st.Bg)
	}
	for _, f := range []struct {
		on   bool
		name string
	}{{st.Bold, "bold"}, {st.Dim, "dim"}, {st.Italic, "italic"}, {st.Underlined, "underlined"}, {st.Blink, "blink"}, {st.Invert, "inverse"}} {
		if f.on {
			w = append(w, f.name)
		}
	}
	return w
}

// ---- bridge to the real package -----------------------------------------------------

func c33Color(name string) ui.Color {
	named := map[string]ui.Color{"black": ui.Black, "red": ui.Red, "green": ui.Green, "yellow": ui.Yellow, "blue": ui.Blue, "magenta": ui.Magenta, "cyan": ui.Cyan, "white": ui.White,
		"bright-black": ui.BrightBlack, "bright-red": ui.BrightRed, "bright-green": ui.BrightGreen, "bright-yellow": ui.BrightYellow, "bright-blue": ui.BrightBlue,
		"bright-magenta": ui.BrightMagenta, "bright-cyan": ui.BrightCyan, "bright-white": ui.BrightWhite}
	if c, ok := named[name]; ok {
		return c
	}
	if strings.HasPrefix(name, "color") {
		n := 0
		fmt.Sscanf(name[5:], "%d", &n)
		return ui.XTerm256Color(uint8(n))
	}
	var r, g, b uint8
	fmt.Sscanf(name, "#%02x%02x%02x", &r, &g, &b)
	return ui.TrueColor(r, g, b)
}

// c33Styling builds the real transformer for a word through the package's Go
// constructors (not through ParseStyling, which the styledown codec uses).
func c33Styling(word string) ui.Styling {
	bools := map[string]ui.Styling{"bold": ui.Bold, "dim": ui.Dim, "italic": ui.Italic, "underlined": ui.Underlined, "blink": ui.Blink, "inverse": ui.Inverse,
		"no-bold": ui.NoBold, "no-dim": ui.NoDim, "no-italic": ui.NoItalic, "no-underlined": ui.NoUnderlined, "no-blink": ui.NoBlink, "no-inverse": ui.NoInverse,
		"toggle-bold": ui.ToggleBold, "toggle-dim": ui.ToggleDim, "toggle-italic": ui.ToggleItalic, "toggle-underlined": ui.ToggleUnderlined, "toggle-blink": ui.ToggleBlink, "toggle-inverse": ui.ToggleInverse,
		"reset": ui.Reset, "default": ui.FgDefault, "fg-default": ui.FgDefault, "bg-default": ui.BgDefault}
	if s, ok := bools[word]; ok {
		return s
	}
	switch {
	case strings.HasPrefix(word, "fg-"):
		return ui.Fg(c33Color(word[3:]))
	case strings.HasPrefix(word, "bg-"):
		return ui.Bg(c33Color(word[3:]))
	}
	return ui.Fg(c33Color(word))
}

func c33RealStylings(words []string, joint bool) []ui.Styling {
	var out []ui.Styling
	for _, w := range words {
		out = append(out, c33Styling(w))
	}
	if joint && len(out) > 0 {
		return []ui.Styling{ui.Stylings(out...)}
	}
	return out
}

func c33FromReal(t ui.Text) c33Text {
	var out c33Text
	for _, seg := range t {
		st := c33Style{Bold: seg.Bold, Dim: seg.Dim, Italic: seg.Italic, Underlined: seg.Underlined, Blink: seg.Blink, Invert: seg.Inverse}
		if seg.Fg != nil {
			st.Fg = seg.Fg.String()
		}
		if seg.Bg != nil {
			st.Bg = seg.Bg.String()
		}
		out = append(out, c33Seg{st, seg.Text})
	}
	return out
}

// c33NormalForm checks the three promises of the ui.Text godoc.
func c33NormalForm(t ui.Text, what string) error {
	if len(t) == 0 {
		if t != nil {
			return fmt.Errorf("%s: empty text must be nil, got a non-nil Text of length 0", what)
		}
		return nil
	}
	for i, seg := range t {
		if seg == nil {
			return fmt.Errorf("%s: segment %d is a nil pointer", what, i)
		}
		if seg.Text == "" {
			return fmt.Errorf("%s: segment %d of %d is empty (normal form has no empty segment); text %s", what, i, len(t), c33FromReal(t))
		}
		if i > 0 && t[i-1].Style == seg.Style {
			return fmt.Errorf("%s: segments %d and %d have the same style (normal form merges them); text %s", what, i-1, i, c33FromReal(t))
		}
	}
	return nil
}

// c33Same checks normal form and styled content against the model.
func c33Same(got ui.Text, want c33Text, what string) error {
	if err := c33NormalForm(got, what); err != nil {
		return err
	}
	return c33SameContent(got, want, what)
}

func c33SameContent(got ui.Text, want c33Text, what string) error {
	g := c33Norm(c33FromReal(got))
	w := c33Norm(want)
	if g.plain() != w.plain() {
		return fmt.Errorf("%s: plain content %q, want %q", what, g.plain(), w.plain())
	}
	if len(g) != len(w) {
		return fmt.Errorf("%s: styled content %s, want %s", what, g, w)
	}
	for i := range g {
		if g[i] != w[i] {
			return fmt.Errorf("%s: styled content %s, want %s (run %d differs)", what, g, w, i)
		}
	}
	return nil
}

// c33Build makes a real text for a model text using only T and Concat.
func c33Build(m c33Text) ui.Text {
	var parts []ui.Text
	for _, s := range m {
		parts = append(parts, ui.T(s.Text, c33RealStylings(c33StyleWords(s.St), false)...))
	}
	return ui.Concat(parts...)
}

// ---- rune/width helpers for the trim model ----------------------------------------------

type c33Rune struct {
	n int // bytes
	w int // columns
}

// c33Runes decodes s the way Go ranges over a string (an invalid byte is one
// rune, U+FFFD). Column widths come from wcwidth.OfRune, which is C34's
// subject and trusted here.
func c33Runes(s string) []c33Rune {
	var out []c33Rune
	for len(s) > 0 {
		r, n := utf8.DecodeRuneInString(s)
		out = append(out, c33Rune{n, wcwidth.OfRune(r)})
		s = s[n:]
	}
	return out
}

// ---- C33/ops -----------------------------------------------------------------------------

type c33Op struct {
	K     string   `json:"k"`               // t concat style part split trim clone builder sd
	Text  vs.B     `json:"text,omitempty"`  // t
	Words []string `json:"words,omitempty"` // stylings for t/style
	Joint bool     `json:"joint,omitempty"` // pass the stylings as one ui.Stylings(...)
	Src   []int    `json:"src,omitempty"`   // pool selectors (mod pool size)
	Idx   []int    `json:"idx,omitempty"`   // partition index selectors / builder script
	R     int      `json:"r,omitempty"`     // split: rune selector; trim: width selector
}

type c33Case struct {
	Ops    []c33Op `json:"ops"`
	Strict bool    `json:"strict,omitempty"` // regression cases: do not step around open findings
}

var c33TextAtoms = []string{"a", "b", "foo", "x", " ", "  ", "\n", "\n", "好", "世界", "é", "́", "​", "\t", "\x00", "\x1b", "\xff", "\xe4\xb8", "\U0001F600", "*", "_", "#", "�", "ab\ncd"}

var c33SplitRunes = []rune{'\n', ' ', 'a', 'x', '好', 'é', 0x301, 0xfffd, '*', 'q', 0}

func c33GenWords(t *rapid.T, label string, max int) []string {
	n := rapid.IntRange(0, max).Draw(t, label+"#")
	var out []string
	for i := 0; i < n; i++ {
		if rapid.Bool().Draw(t, label+"?common") {
			// a small vocabulary makes texts whose segments differ in one field only
			out = append(out, rapid.SampledFrom(c33CommonStylings).Draw(t, label))
		} else {
			out = append(out, rapid.SampledFrom(c33Stylings).Draw(t, label))
		}
	}
	return out
}

var c33CommonStylings = []string{"bold", "fg-red", "fg-green", "bg-blue", "underlined", "reset", "no-bold", "fg-default", "toggle-bold", "inverse", "bg-default", "fg-red"}

func c33GenText(t *rapid.T, label string, atoms []string, max int) string {
	n := rapid.IntRange(0, max).Draw(t, label+"#")
	var sb strings.Builder
	for i := 0; i < n; i++ {
		sb.WriteString(rapid.SampledFrom(atoms).Draw(t, label))
	}
	return sb.String()
}

func c33GenOps(t *rapid.T) c33Case {
	kinds := []string{"t", "t", "t", "concat", "concat", "style", "style", "part", "part", "split", "split", "trim", "trim", "clone", "builder", "sd"}
	n := 27 - rapid.IntRange(3, 24).Draw(t, "nops")
	var c c33Case
	// start with a couple of constructed texts so that selectors have something to pick
	for i := 0; i < 2; i++ {
		c.Ops = append(c.Ops, c33Op{K: "t", Text: vs.B(c33GenText(t, "text", c33TextAtoms, 5)), Words: c33GenWords(t, "w", 3)})
	}
	sel := func(label string, lo, hi int) []int {
		return rapid.SliceOfN(rapid.IntRange(0, 63), lo, hi).Draw(t, label)
	}
	for i := 0; i < n; i++ {
		op := c33Op{K: rapid.SampledFrom(kinds).Draw(t, "k")}
		switch op.K {
		case "t":
			op.Text = vs.B(rapid.SampledFrom(c33TextAtoms).Draw(t, "text0") + c33GenText(t, "text", c33TextAtoms, 4))
			op.Words = c33GenWords(t, "w", 3)
			op.Joint = rapid.Bool().Draw(t, "joint")
		case "concat":
			op.Src = sel("src", 0, 5)
			if len(op.Src) == 1 {
				op.Src = append(op.Src, rapid.IntRange(0, 63).Draw(t, "src2"))
			}
		case "style":
			op.Src = sel("src", 1, 1)
			op.Words = c33GenWords(t, "w", 3)
			op.Joint = rapid.Bool().Draw(t, "joint")
		case "part":
			op.Src = sel("src", 1, 1)
			op.Idx = sel("idx", 0, 5)
		case "split", "trim":
			op.Src = sel("src", 1, 1)
			op.R = rapid.IntRange(0, 40).Draw(t, "r")
		case "clone":
			op.Src = sel("src", 1, 1)
		case "builder":
			op.Src = sel("src", 0, 6)
			op.Idx = sel("script", 0, 6)
		case "sd":
			op.Src = sel("src", 1, 1)
			op.R = rapid.IntRange(0, 15).Draw(t, "mode")
		}
		c.Ops = append(c.Ops, op)
	}
	return c
}

type c33Entry struct {
	real  ui.Text
	model c33Text
}

type c33Info struct {
	merges, midRune, wide, sdOK, sdUncovered, trimCut, splitMulti bool
}

const c33PoolMax = 48

func c33RunOps(c c33Case, info *c33Info) error {
	pool := []c33Entry{{nil, nil}}
	push := func(r ui.Text, m c33Text) {
		if len(pool) < c33PoolMax {
			pool = append(pool, c33Entry{r, c33Norm(m)})
		} else {
			pool[1+len(m)%(c33PoolMax-1)] = c33Entry{r, c33Norm(m)}
		}
	}
	pick := func(s int) c33Entry {
		// Selectors >= 16 prefer a text of at least two segments: the first
		// such entry at or after the selected one.
		if s >= 16 {
			for k := 0; k < len(pool); k++ {
				if e := pool[(s+k)%len(pool)]; len(e.model) >= 2 {
					return e
				}
			}
		}
		return pool[s%len(pool)]
	}
	for i, op := range c.Ops {
		what := fmt.Sprintf("op %d %s", i, op.K)
		switch op.K {
		case "t":
			got := ui.T(string(op.Text), c33RealStylings(op.Words, op.Joint)...)
			want := c33Text{{c33ApplyAll(c33Style{}, op.Words), string(op.Text)}}
			if err := c33Same(got, want, fmt.Sprintf("%s T(%q, %v)", what, string(op.Text), op.Words)); err != nil {
				return err
			}
			push(got, want)
		case "concat":
			var rs []ui.Text
			var want c33Text
			for _, s := range op.Src {
				e := pick(s)
				rs = append(rs, e.real)
				want = append(want, e.model...)
			}
			got := ui.Concat(rs...)
			if err := c33Same(got, want, fmt.Sprintf("%s Concat of %d texts", what, len(rs))); err != nil {
				return err
			}
			push(got, want)
		case "style":
			e := pick(op.Src[0])
			got := ui.StyleText(e.real, c33RealStylings(op.Words, op.Joint)...)
			var want c33Text
			merges := false
			for j, s := range e.model {
				st := c33ApplyAll(s.St, op.Words)
				if j > 0 && want[j-1].St == st {
					merges = true
				}
				want = append(want, c33Seg{st, s.Text})
			}
			desc := fmt.Sprintf("%s StyleText(%s, %v)", what, e.model, op.Words)
			if merges && info != nil {
				info.merges = true
			}
			if merges && !c.Strict && vs.KnownOpen("C33:styletext-no-merge") {
				// Open finding: adjacent segments that become equal-styled are
				// left unmerged. Content is still checked; the search goes on
				// with the text rebuilt in normal form.
				c33Excluded("StyleText makes adjacent segments equal-styled (open finding C33:styletext-no-merge): normal form not asserted")
				if err := c33SameContent(got, want, desc); err != nil {
					return err
				}
				got = c33Build(c33Norm(want))
			} else if err := c33Same(got, want, desc); err != nil {
				return err
			}
			// StyleText must not modify its argument.
			if err := c33Same(e.real, e.model, desc+": argument afterwards"); err != nil {
				return err
			}
			push(got, want)
		case "part":
			e := pick(op.Src[0])
			plain := e.model.plain()
			var idx []int
			for _, s := range op.Idx {
				idx = append(idx, s%(len(plain)+1))
			}
			sort.Ints(idx)
			got := e.real.Partition(idx...)
			desc := fmt.Sprintf("%s %s.Partition(%v)", what, e.model, idx)
			if len(got) != len(idx)+1 {
				return fmt.Errorf("%s: %d parts, want %d", desc, len(got), len(idx)+1)
			}
			flat := c33Flatten(e.model)
			prev := 0
			var all c33Text
			for j := 0; j <= len(idx); j++ {
				end := len(plain)
				if j < len(idx) {
					end = idx[j]
				}
				want := c33Unflatten(flat[prev:end])
				if err := c33Same(got[j], want, fmt.Sprintf("%s part %d", desc, j)); err != nil {
					return err
				}
				if info != nil && end < len(plain) && end > 0 && !utf8.RuneStart(plain[end]) {
					info.midRune = true
				}
				all = append(all, c33FromReal(got[j])...)
				prev = end
			}
			if all.plain() != plain {
				return fmt.Errorf("%s: parts concatenate to %q, want %q", desc, all.plain(), plain)
			}
			if err := c33Same(e.real, e.model, desc+": receiver afterwards"); err != nil {
				return err
			}
			for j := range got {
				if len(got[j]) > 0 {
					push(got[j], c33FromReal(got[j]))
				}
			}
		case "split":
			e := pick(op.Src[0])
			r := c33PickRune(e.model.plain(), op.R)
			got := e.real.SplitByRune(r)
			desc := fmt.Sprintf("%s %s.SplitByRune(%q)", what, e.model, r)
			sep := string(r)
			// Pieces per segment (the separator is looked for inside each segment).
			pieces := []c33Text{nil}
			for _, s := range e.model {
				parts := strings.Split(s.Text, sep)
				for k, p := range parts {
					if k > 0 {
						pieces = append(pieces, nil)
					}
					pieces[len(pieces)-1] = append(pieces[len(pieces)-1], c33Seg{s.St, p})
				}
			}
			if strings.Count(e.model.plain(), sep) != len(pieces)-1 {
				// The encoding of r spans two differently-styled segments
				// (possible after a partition inside a rune): whether that is
				// an occurrence of the rune is not specified.
				c33Excluded("SplitByRune where the rune's bytes span two segments: unspecified")
				continue
			}
			if len(e.model) == 0 {
				// Empty text: zero pieces or one empty piece both join back to the original.
				if len(got) > 1 || (len(got) == 1 && got[0] != nil) {
					return fmt.Errorf("%s: empty text split into %d pieces %v", desc, len(got), got)
				}
				continue
			}
			if len(got) != len(pieces) {
				return fmt.Errorf("%s: %d pieces, want %d", desc, len(got), len(pieces))
			}
			if info != nil && len(pieces) > 2 {
				info.splitMulti = true
			}
			var joined c33Text
			for j := range got {
				if err := c33Same(got[j], pieces[j], fmt.Sprintf("%s piece %d", desc, j)); err != nil {
					return err
				}
				if j > 0 {
					joined = append(joined, c33Seg{Text: sep})
				}
				joined = append(joined, c33FromReal(got[j])...)
			}
			if joined.plain() != e.model.plain() {
				return fmt.Errorf("%s: pieces join to %q, want %q", desc, joined.plain(), e.model.plain())
			}
			for j := range got {
				if len(got[j]) > 0 {
					push(got[j], pieces[j])
				}
			}
		case "trim":
			e := pick(op.Src[0])
			plain := e.model.plain()
			total := 0
			for _, s := range e.model {
				for _, r := range c33Runes(s.Text) {
					total += r.w
				}
			}
			w := op.R % (total + 2)
			got := e.real.TrimWcwidth(w)
			desc := fmt.Sprintf("%s %s.TrimWcwidth(%d)", what, e.model, w)
			if err := c33NormalForm(got, desc); err != nil {
				return err
			}
			gp := c33FromReal(got).plain()
			if !strings.HasPrefix(plain, gp) {
				return fmt.Errorf("%s: result %q is not a prefix of %q", desc, gp, plain)
			}
			flat := c33Flatten(e.model)
			if err := c33SameContent(got, c33Unflatten(flat[:len(gp)]), desc); err != nil {
				return err
			}
			if err := c33TrimLaw(e.model, len(gp), w, c.Strict); err != nil {
				return fmt.Errorf("%s: result %q: %v", desc, gp, err)
			}
			if info != nil && len(gp) > 0 && len(gp) < len(plain) {
				info.trimCut = true
			}
			push(got, c33FromReal(got))
		case "clone":
			e := pick(op.Src[0])
			if len(e.model) == 0 && !c.Strict && vs.KnownOpen("C33:clone-of-empty-not-nil") {
				c33Excluded("Clone of the empty text (open finding C33:clone-of-empty-not-nil)")
				continue
			}
			got := e.real.Clone()
			if err := c33Same(got, e.model, fmt.Sprintf("%s %s.Clone()", what, e.model)); err != nil {
				return err
			}
			for j := range got {
				if got[j] == e.real[j] {
					return fmt.Errorf("%s: Clone shares segment %d with the original (documented as a deep copy)", what, j)
				}
			}
			push(got, e.model)
		case "builder":
			var tb ui.TextBuilder
			var acc c33Text
			k := 0
			for step, code := range op.Idx {
				switch code % 8 {
				case 0: // Reset
					tb.Reset()
					acc = nil
				case 1: // Text in the middle
					got := tb.Text()
					if err := c33Same(got, acc, fmt.Sprintf("%s step %d Text()", what, step)); err != nil {
						return err
					}
					if tb.Empty() != (len(c33Norm(acc)) == 0) {
						return fmt.Errorf("%s step %d: Empty()=%v but content is %s", what, step, tb.Empty(), c33Norm(acc))
					}
					push(got, acc)
				default:
					if len(op.Src) == 0 {
						continue
					}
					e := pick(op.Src[k%len(op.Src)])
					k++
					tb.WriteText(e.real)
					acc = append(acc, e.model...)
				}
			}
			got := tb.Text()
			if err := c33Same(got, acc, fmt.Sprintf("%s final Text()", what)); err != nil {
				return err
			}
			push(got, acc)
		case "sd":
			e := pick(op.Src[0])
			ok, uncovered, err := c33Styledown(e.real, e.model, op.R, what)
			if err != nil {
				return err
			}
			if info != nil {
				info.sdOK = info.sdOK || ok
				info.sdUncovered = info.sdUncovered || uncovered
			}
		default:
			return fmt.Errorf("unknown op %q", op.K)
		}
		if info != nil {
			for _, e := range pool[len(pool)-1:] {
				for _, s := range e.model {
					for _, r := range c33Runes(s.Text) {
						if r.w == 2 {
							info.wide = true
						}
					}
				}
			}
		}
	}
	return nil
}

// c33Quiet is set while Class replays a case, so that exclusions are counted once.
var c33Quiet bool

func c33Excluded(reason string) {
	if !c33Quiet {
		vs.Excluded(reason)
	}
}

type c33Byte struct {
	b  byte
	st c33Style
}

func c33Flatten(t c33Text) []c33Byte {
	var out []c33Byte
	for _, s := range t {
		for i := 0; i < len(s.Text); i++ {
			out = append(out, c33Byte{s.Text[i], s.St})
		}
	}
	return out
}

func c33Unflatten(bs []c33Byte) c33Text {
	var out c33Text
	for _, b := range bs {
		if n := len(out); n > 0 && out[n-1].St == b.st {
			out[n-1].Text += string([]byte{b.b})
		} else {
			out = append(out, c33Seg{b.st, string([]byte{b.b})})
		}
	}
	return out
}

func c33PickRune(plain string, sel int) rune {
	if sel < len(c33SplitRunes) {
		return c33SplitRunes[sel]
	}
	rs := []rune(plain)
	if len(rs) == 0 {
		return '\n'
	}
	return rs[sel%len(rs)]
}

// c33TrimLaw: the godoc of TrimWcwidth says "the largest prefix of t that does
// not exceed the given visual width". cut is the byte length of the result.
// Widths are summed per segment (that is what "visual width of a Text" can
// only mean); when a multi-byte rune was split across segments by an earlier
// partition, the decoding over the whole content is accepted as well.
func c33TrimLaw(m c33Text, cut, wmax int, strict bool) error {
	perSeg := func() ([]c33Rune, []bool) {
		var rs []c33Rune
		var first []bool // rune starts a segment
		for _, s := range m {
			for k, r := range c33Runes(s.Text) {
				rs = append(rs, r)
				first = append(first, k == 0)
			}
		}
		return rs, first
	}
	rs, first := perSeg()
	errA := c33TrimLawOn(rs, first, cut, wmax, strict)
	if errA == nil {
		return nil
	}
	whole := c33Runes(m.plain())
	if len(whole) != len(rs) {
		if c33TrimLawOn(whole, make([]bool, len(whole)), cut, wmax, strict) == nil {
			return nil
		}
	}
	return errA
}

func c33TrimLawOn(rs []c33Rune, first []bool, cut, wmax int, strict bool) error {
	pos, w, i := 0, 0, 0
	for ; i < len(rs) && pos < cut; i++ {
		pos += rs[i].n
		w += rs[i].w
	}
	if pos != cut {
		return fmt.Errorf("cut at byte %d is inside a character", cut)
	}
	if w > wmax {
		return fmt.Errorf("has width %d, more than %d", w, wmax)
	}
	if i < len(rs) && w+rs[i].w <= wmax {
		if rs[i].w == 0 && first[i] && !strict && vs.KnownOpen("C33:trim-drops-zero-width-at-segment-start") {
			c33Excluded("TrimWcwidth cut directly before a zero-width character that starts a segment (open finding C33:trim-drops-zero-width-at-segment-start)")
			return nil
		}
		return fmt.Errorf("is not the largest prefix: width %d, the next character (width %d) still fits in %d", w, rs[i].w, wmax)
	}
	return nil
}

// ---- styledown ---------------------------------------------------------------------

var c33DefChars = []rune{'r', 'G', 'b', 'X', 'y', 'z', 'Q', '+', '=', '~', '^', '!', '@', '%', 'é', '1', '2', '3', '4', '5', '6', '7', '8', '9', 'A', 'B', 'C', 'D', 'E', 'F'}

var c33Builtin = map[rune]c33Style{' ': {}, '*': {Bold: true}, '_': {Underlined: true}, '#': {Invert: true}}

// c33SdAble: Styledown text lines hold characters of width 1 or 2 (the
// package doc); zero-width characters are rejected by Render and invalid
// UTF-8 has no notation.
func c33SdAble(m c33Text) bool {
	s := m.plain()
	if !utf8.ValidString(s) {
		return false
	}
	// A style line styles "the character directly above it"; a newline has no
	// place in the notation, so only unstyled newlines are in the domain.
	for _, seg := range m {
		if seg.St != (c33Style{}) && strings.Contains(seg.Text, "\n") {
			return false
		}
		// a style change inside a character (after a partition at a byte offset
		// inside a rune) cannot be written in a per-character notation
		if !utf8.ValidString(seg.Text) {
			return false
		}
	}
	for _, r := range s {
		if r == '\n' {
			continue
		}
		if r == utf8.RuneError || wcwidth.OfRune(r) == 0 {
			return false
		}
	}
	return true
}

// c33Styledown derenders and renders back. mode selects how the style
// definitions are laid out: bit 0 = also define builtin-covered styles with
// own characters, bit 1 = override a builtin character, bit 2 = leave one used
// style undefined (Derender must refuse).
func c33Styledown(real ui.Text, m c33Text, mode int, what string) (ok, uncovered bool, err error) {
	if !c33SdAble(m) {
		return false, false, nil
	}
	// styles in order of first use
	var used []c33Style
	seen := map[c33Style]bool{}
	for _, s := range m {
		if !seen[s.St] {
			seen[s.St] = true
			used = append(used, s.St)
		}
	}
	builtinStyles := map[c33Style]bool{}
	for _, st := range c33Builtin {
		builtinStyles[st] = true
	}
	var defs []string
	next := 0
	covered := map[c33Style]bool{}
	overridden := map[rune]bool{}
	def := func(ch rune, st c33Style) {
		words := c33StyleWords(st)
		if len(words) == 0 {
			words = []string{"no-bold"} // a definition needs at least one styling; this one yields the zero style
		}
		defs = append(defs, string(ch)+" "+strings.Join(words, " "))
		covered[st] = true
	}
	var dropped *c33Style
	if mode&4 != 0 {
		for k := len(used) - 1; k >= 0; k-- {
			if !builtinStyles[used[k]] {
				dropped = &used[k]
				break
			}
		}
	}
	if mode&2 != 0 {
		// '#' is redefined as a style that is otherwise unused here; the
		// builtin inverse style loses its character.
		over := c33Style{Fg: "color200", Blink: true, Dim: true}
		if !seen[over] {
			def('#', over)
			overridden['#'] = true
		}
	}
	reused := false
	for _, st := range used {
		if dropped != nil && st == *dropped {
			continue
		}
		if builtinStyles[st] && mode&1 == 0 {
			continue
		}
		if mode&8 != 0 && !reused && !builtinStyles[st] {
			// a style that IS used here takes over the character of a builtin
			// style: the definition has to win over the builtin meaning
			ch := []rune{'*', '_', '#'}[len(used)%3]
			if !overridden[ch] {
				def(ch, st)
				overridden[ch] = true
				reused = true
				continue
			}
		}
		if next >= len(c33DefChars) {
			return false, false, nil // more styles than definition characters; not a case
		}
		def(c33DefChars[next], st)
		next++
	}
	for ch, st := range c33Builtin {
		if !overridden[ch] {
			covered[st] = true
		}
	}
	allCovered := true
	for _, st := range used {
		if !covered[st] {
			allCovered = false
		}
	}
	styleDefs := strings.Join(defs, "\n")
	desc := fmt.Sprintf("%s styledown of %s with styleDefs %q", what, m, styleDefs)
	src, derr := styledown.Derender(real, styleDefs)
	if !allCovered {
		if derr == nil {
			return false, true, fmt.Errorf("%s: Derender succeeded although a used style has no character defined; output %q", desc, src)
		}
		return false, true, nil
	}
	if derr != nil {
		return false, false, fmt.Errorf("%s: Derender failed: %v", desc, derr)
	}
	back, rerr := styledown.Render(src)
	if rerr != nil {
		return false, false, fmt.Errorf("%s: Render of the derendered markup %q failed: %v", desc, src, rerr)
	}
	if err := c33Same(back, m, fmt.Sprintf("%s: Render(Derender(t)) via markup %q", desc, src)); err != nil {
		return false, false, err
	}
	return true, false, nil
}

// ---- C33/styledown -----------------------------------------------------------------------

type c33SdSeg struct {
	Words []string `json:"words"`
	Text  string   `json:"text"`
}

type c33SdCase struct {
	Segs []c33SdSeg `json:"segs"`
	Mode int        `json:"mode"`
}

var c33SdAtoms = []string{"a", "b", "foo", "x y", " ", "  ", "\n", "\n", "\n\n", "好", "世界", "é", "\U0001F600", "*", "_", "#", "no-eol", "r fg-red", "ab\ncd", "\n ", "日本語\n"}

var c33SdPalette = [][]string{{}, {}, {"bold"}, {"underlined"}, {"inverse"}, {"bold", "inverse"}, {"fg-red"}, {"fg-red", "bold"}, {"bg-green"}, {"fg-color123", "bg-#0a0b0c"},
	{"dim"}, {"italic", "blink"}, {"fg-bright-cyan"}, {"fg-#ff0000"}, {"bg-color7", "underlined"}}

func c33GenSd(t *rapid.T) c33SdCase {
	var c c33SdCase
	n := rapid.SampledFrom([]int{2, 1, 3, 2, 3, 4, 1, 5, 6, 7, 0}).Draw(t, "nsegs")
	for i := 0; i < n; i++ {
		c.Segs = append(c.Segs, c33SdSeg{
			Words: rapid.SampledFrom(c33SdPalette).Draw(t, "style"),
			Text:  rapid.SampledFrom(c33SdAtoms).Draw(t, "text0") + c33GenText(t, "text", c33SdAtoms, 3),
		})
	}
	c.Mode = rapid.SampledFrom([]int{0, 0, 0, 1, 1, 2, 3, 4, 5, 6, 8, 8, 9, 10, 12}).Draw(t, "mode")
	return c
}

func c33SdBuild(c c33SdCase) (ui.Text, c33Text) {
	var parts []ui.Text
	var m c33Text
	for _, s := range c.Segs {
		// newlines are written unstyled (see c33SdAble)
		for k, piece := range strings.Split(s.Text, "\n") {
			if k > 0 {
				parts = append(parts, ui.T("\n"))
				m = append(m, c33Seg{c33Style{}, "\n"})
			}
			parts = append(parts, ui.T(piece, c33RealStylings(s.Words, false)...))
			m = append(m, c33Seg{c33ApplyAll(c33Style{}, s.Words), piece})
		}
	}
	return ui.Concat(parts...), c33Norm(m)
}

func c33CheckSd(c c33SdCase) error {
	real, m := c33SdBuild(c)
	if err := c33Same(real, m, "constructed text"); err != nil {
		return err
	}
	_, _, err := c33Styledown(real, m, c.Mode, "round trip")
	return err
}

func c33ClassSd(c c33SdCase) (string, bool) {
	_, m := c33SdBuild(c)
	if len(m) == 0 {
		return "empty", false
	}
	plain := m.plain()
	label := "single-line"
	switch {
	case c.Mode&4 != 0:
		label = "style-left-undefined"
	case strings.Contains(plain, "\n\n") || strings.HasPrefix(plain, "\n"):
		label = "empty-lines"
	case strings.Contains(strings.TrimSuffix(plain, "\n"), "\n"):
		label = "multi-line"
	}
	if !strings.HasSuffix(plain, "\n") {
		label += "/no-eol"
	}
	for _, r := range plain {
		if wcwidth.OfRune(r) == 2 {
			label += "/wide"
			break
		}
	}
	return label, true
}

func c33ClassOps(c c33Case) (string, bool) {
	var info c33Info
	func() {
		c33Quiet = true
		defer func() { c33Quiet = false; recover() }()
		c33RunOps(c, &info)
	}()
	// the rarest feature exercised names the class
	for _, f := range []struct {
		on   bool
		name string
	}{{info.sdUncovered, "styledown-style-undefined"}, {info.merges, "restyle-makes-neighbours-equal"}, {info.midRune, "partition-inside-rune"}, {info.trimCut, "trim-cuts"},
		{info.splitMulti, "split-3+pieces"}, {info.sdOK, "styledown-roundtrip"}, {info.wide, "wide-chars"}} {
		if f.on {
			return f.name, true
		}
	}
	return "plain", len(c.Ops) > 2
}

func c33T(text string, words ...string) c33Op { return c33Op{K: "t", Text: vs.B(text), Words: words} }

func init() {
	vs.Register(vs.Prop[c33Case]{
		Name:  "C33/ops",
		Rule:  "histories of 3-26 operations (T, Concat, StyleText, Partition, SplitByRune, TrimWcwidth, Clone, TextBuilder scripts, styledown round trip) over a pool of texts built only through the package; texts mix ASCII, newlines, wide and zero-width characters, control and invalid bytes; stylings: all bool on/off/toggle, 20 colors fg/bg incl. xterm-256 and true color, reset, single or as ui.Stylings; after every operation the result is compared with an independent model (normal form + styled content per byte + operation-specific law); non-trivial = more than 2 operations",
		Gen:   c33GenOps,
		Check: func(c c33Case) error { return c33RunOps(c, nil) },
		Class: c33ClassOps,
		Quick: 10000, Thorough: 150000, FuzzSecs: 45,
		Known: []vs.Known[c33Case]{
			{Key: "C33:styletext-no-merge", Case: c33Case{Strict: true, Ops: []c33Op{
				c33T("foo"), c33T("bar", "fg-green"), {K: "concat", Src: []int{1, 2}}, {K: "style", Src: []int{3}, Words: []string{"fg-red"}}}}},
			{Key: "C33:empty-text-not-nil", Case: c33Case{Strict: true, Ops: []c33Op{{K: "style", Src: []int{0}, Words: []string{"bold"}}}}},
			{Key: "C33:trim-empty-segment", Case: c33Case{Strict: true, Ops: []c33Op{c33T("abc", "bold"), {K: "trim", Src: []int{1}, R: 0}}}},
			{Key: "C33:trim-empty-segment", Case: c33Case{Strict: true, Ops: []c33Op{c33T("a"), c33T("好", "bold"), {K: "concat", Src: []int{1, 2}}, {K: "trim", Src: []int{3}, R: 2}}}},
			{Key: "C33:clone-of-empty-not-nil", Case: c33Case{Strict: true, Ops: []c33Op{{K: "clone", Src: []int{0}}}}},
			{Key: "C33:trim-drops-zero-width-at-segment-start", Case: c33Case{Strict: true, Ops: []c33Op{
				c33T("a"), c33T("́b", "bold"), {K: "concat", Src: []int{1, 2}}, {K: "trim", Src: []int{3}, R: 1}}}},
		},
	})
	vs.Register(vs.Prop[c33SdCase]{
		Name:  "C33/styledown",
		Rule:  "texts of 0-7 segments over a 15-style palette whose characters have width 1 or 2 or are newlines (the domain of Styledown), including lines that look like configuration lines and style characters; style definitions generated for the styles in use (optionally also for builtin-covered styles, overriding a builtin character with an unused or with a used style, or leaving one style undefined); oracle: Render(Derender(t, defs)) is t in normal form, Derender refuses exactly when a used style has no character; non-trivial = non-empty text",
		Gen:   c33GenSd,
		Check: c33CheckSd,
		Class: c33ClassSd,
		Quick: 6000, Thorough: 100000,
	})
}
