package props

// C34 Width handling fits text to the requested number of columns.
//
// Sub-checks:
//   C34/trimforce  wcwidth.Trim / wcwidth.Force on generated strings and widths.
//                  Oracle: a hand-assigned width table for the generated
//                  alphabet (ASCII 1, East-Asian wide 2, combining/format/
//                  control 0 -- the rules of Markus Kuhn's wcwidth.c that the
//                  package documents) and the definition "longest prefix cut
//                  at a rune boundary whose width does not exceed w".
//   C34/widgets    every editor widget (CodeArea, ListBox vertical and
//                  horizontal, TextView, Label, ComboBox) built from a
//                  generated state and rendered at width 2..40, height 1..12,
//                  one to three times in a row (a resize keeps the widget's
//                  scroll state). Oracle: for each rendered term.Buffer the sum
//                  of the cell widths of every line is <= width and the
//                  number of lines is <= height.

import (
	"fmt"
	"strings"
	"time"
	"unicode/utf8"

	"pgregory.net/rapid"
	"src.elv.sh/pkg/cli/term"
	"src.elv.sh/pkg/cli/tk"
	"src.elv.sh/pkg/ui"
	"src.elv.sh/pkg/wcwidth"
	"verif/vs"
)

// ---- alphabet with hand-assigned display widths ---------------------------------

type c34Atom struct {
	r rune
	w int
}

var c34Narrow = []c34Atom{
	{'a', 1}, {'b', 1}, {'Z', 1}, {'0', 1}, {' ', 1}, {'~', 1}, {'|', 1}, {'.', 1},
	{'é', 1}, {'\uFF76', 1} /* halfwidth katakana */, {'\u00A0', 1}, {'\uFFFD', 1}, {'\u2502', 1}, {'\u0663', 1},
}
var c34Wide = []c34Atom{
	{'世', 2}, {'界', 2}, {'\u3000', 2}, {'\uFF01', 2}, {'\U0001F600', 2}, {'\uAC00', 2}, {'\U00020000', 2},
}
var c34Zero = []c34Atom{
	{'\u0301', 0}, {'\u200B', 0}, {'\uFE0F', 0}, {'\U000E0001', 0}, {'\u20D0', 0},
}
var c34Control = []c34Atom{
	{'\t', 0}, {'\x01', 0}, {'\x7f', 0}, {'\x00', 0}, {'\u0085', 0}, {'\u009f', 0}, {'\x1b', 0},
}

var c34Table = func() map[rune]int {
	m := map[rune]int{'\n': 0}
	for _, l := range [][]c34Atom{c34Narrow, c34Wide, c34Zero, c34Control} {
		for _, a := range l {
			m[a.r] = a.w
		}
	}
	return m
}()

// c34RuneWidth is the oracle's width of a rune: the table for the generated
// alphabet, the package's own table for any other rune (there it is the
// definition of "display width", not something this check can second-guess).
func c34RuneWidth(r rune) int {
	if w, ok := c34Table[r]; ok {
		return w
	}
	return wcwidth.OfRune(r)
}

// c34Width sums rune widths; an invalid byte counts as U+FFFD (width 1), which
// is how Go's range loop presents it to the package.
func c34Width(s string) int {
	w := 0
	for _, r := range s {
		w += c34RuneWidth(r)
	}
	return w
}

type c34StrOpt struct {
	newline, control bool
}

func c34GenStr(t *rapid.T, label string, maxRunes int, o c34StrOpt) string {
	n := rapid.IntRange(0, maxRunes).Draw(t, label+"#")
	var sb strings.Builder
	for i := 0; i < n; i++ {
		k := rapid.IntRange(0, 19).Draw(t, label+"k")
		switch {
		case k < 9:
			sb.WriteRune(rapid.SampledFrom(c34Narrow).Draw(t, label).r)
		case k < 14:
			sb.WriteRune(rapid.SampledFrom(c34Wide).Draw(t, label).r)
		case k < 17:
			sb.WriteRune(rapid.SampledFrom(c34Zero).Draw(t, label).r)
		case k < 18 && o.newline:
			sb.WriteRune('\n')
		case k < 19 && o.control:
			sb.WriteRune(rapid.SampledFrom(c34Control).Draw(t, label).r)
		default:
			sb.WriteRune(rapid.SampledFrom(c34Narrow).Draw(t, label).r)
		}
	}
	return sb.String()
}

// ---- C34/trimforce ----------------------------------------------------------------

type c34TF struct {
	S vs.B `json:"s"`
	W int  `json:"w"`
}

func c34GenTF(t *rapid.T) c34TF {
	var s string
	switch rapid.IntRange(0, 9).Draw(t, "kind") {
	case 0: // arbitrary runes, the package's table is the definition there
		rs := rapid.SliceOfN(rapid.Rune(), 0, 12).Draw(t, "runes")
		s = string(rs)
	case 1: // arbitrary bytes
		s = string(rapid.SliceOfN(rapid.Byte(), 0, 12).Draw(t, "bytes"))
	default:
		s = c34GenStr(t, "s", 16, c34StrOpt{newline: true, control: true})
		if s == "" {
			s = string(rapid.SampledFrom(c34Wide).Draw(t, "one").r)
		}
	}
	total := c34Width(s)
	var w int
	switch rapid.IntRange(0, 5).Draw(t, "wk") {
	case 0:
		w = 0
	case 1:
		w = total
	case 2:
		w = total + rapid.IntRange(1, 5).Draw(t, "over")
	default:
		w = rapid.IntRange(0, total+1).Draw(t, "w")
	}
	return c34TF{S: vs.B(s), W: w}
}

// c34Boundaries returns the byte offsets at which Go's range loop starts a
// rune (plus len(s)): the only places a string can be cut "at a character
// boundary".
func c34Boundaries(s string) map[int]bool {
	m := map[int]bool{len(s): true}
	for i := range s {
		m[i] = true
	}
	return m
}

func c34CheckTF(c c34TF) error {
	s, w := string(c.S), c.W
	// The width table itself, for the alphabet whose widths are fixed by the
	// documented rules.
	for _, r := range s {
		if want, ok := c34Table[r]; ok {
			if got := wcwidth.OfRune(r); got != want {
				return fmt.Errorf("wcwidth.OfRune(%U)=%d, want %d (ASCII/narrow 1, East Asian wide 2, combining/format/control 0)", r, got, want)
			}
		}
	}
	if got, want := wcwidth.Of(s), c34Width(s); got != want {
		return fmt.Errorf("wcwidth.Of(%q)=%d, want the sum of the rune widths %d", s, got, want)
	}
	bounds := c34Boundaries(s)

	// Trim
	t := wcwidth.Trim(s, w)
	if !strings.HasPrefix(s, t) {
		return fmt.Errorf("Trim(%q,%d)=%q is not a prefix of the input", s, w, t)
	}
	if !bounds[len(t)] {
		return fmt.Errorf("Trim(%q,%d)=%q cuts inside a character (offset %d)", s, w, t, len(t))
	}
	if tw := c34Width(t); tw > w {
		return fmt.Errorf("Trim(%q,%d)=%q has width %d > %d", s, w, t, tw, w)
	}
	if len(t) < len(s) {
		r, _ := utf8.DecodeRuneInString(s[len(t):])
		if c34Width(t)+c34RuneWidth(r) <= w {
			return fmt.Errorf("Trim(%q,%d)=%q is not the longest prefix: the next character %U still fits (width %d+%d)", s, w, t, r, c34Width(t), c34RuneWidth(r))
		}
	}

	// Force
	f := wcwidth.Force(s, w)
	if fw := c34Width(f); fw != w {
		return fmt.Errorf("Force(%q,%d)=%q has width %d, want exactly %d", s, w, f, fw, w)
	}
	// f = prefix of s cut at a boundary + padding spaces (nothing invented)
	ok := false
	for cut := 0; cut <= len(f) && cut <= len(s); cut++ {
		if bounds[cut] && f[:cut] == s[:cut] && strings.Trim(f[cut:], " ") == "" {
			ok = true
			break
		}
	}
	if !ok {
		return fmt.Errorf("Force(%q,%d)=%q is not a prefix of the input cut at a character boundary followed by padding spaces", s, w, f)
	}
	return nil
}

func c34ClassTF(c c34TF) (string, bool) {
	s := string(c.S)
	if !utf8.ValidString(s) {
		return "invalid-utf8", len(s) > 0
	}
	total := c34Width(s)
	hasWide, hasZero := false, false
	for _, r := range s {
		switch c34RuneWidth(r) {
		case 2:
			hasWide = true
		case 0:
			hasZero = true
		}
	}
	kind := "narrow"
	switch {
	case hasWide && hasZero:
		kind = "wide+zero"
	case hasWide:
		kind = "wide"
	case hasZero:
		kind = "zero"
	}
	switch {
	case s == "":
		return "empty", false
	case c.W >= total:
		return kind + "/fits", true
	default:
		// does the cut fall in the middle of a wide character?
		acc := 0
		for _, r := range s {
			rw := c34RuneWidth(r)
			if acc+rw > c.W {
				if rw == 2 && acc+1 == c.W {
					return kind + "/cut-splits-wide", true
				}
				break
			}
			acc += rw
		}
		return kind + "/cut", true
	}
}

func init() {
	vs.Register(vs.Prop[c34TF]{
		Name: "C34/trimforce",
		Rule: "strings of <=16 characters from an alphabet with hand-assigned widths (ASCII/narrow 1, CJK/fullwidth/emoji 2, combining/format 0, C0/C1 controls and newline 0), 10% arbitrary runes, 10% arbitrary bytes; width 0..total+5 biased to 0, total and cuts; non-trivial = non-empty string; classes show whether the cut falls inside the string and whether it would split a wide character",
		Gen:  c34GenTF, Check: c34CheckTF, Class: c34ClassTF,
		Quick: 20000, Thorough: 300000,
	})
}

// ---- C34/widgets ------------------------------------------------------------------

type c34Seg struct {
	S  string `json:"s"`
	St int    `json:"st"`
}

type c34Text []c34Seg

var c34Styles = []ui.Styling{nil, ui.Bold, ui.FgRed, ui.Inverse, ui.Underlined, ui.Stylings(ui.FgGreen, ui.BgBlue)}

func (t c34Text) ui() ui.Text {
	var parts []ui.Text
	for _, s := range t {
		st := c34Styles[((s.St%len(c34Styles))+len(c34Styles))%len(c34Styles)]
		if st == nil {
			parts = append(parts, ui.T(s.S))
		} else {
			parts = append(parts, ui.T(s.S, st))
		}
	}
	return ui.Concat(parts...)
}

func (t c34Text) str() string {
	var sb strings.Builder
	for _, s := range t {
		sb.WriteString(s.S)
	}
	return sb.String()
}

type c34Size struct {
	W int `json:"w"`
	H int `json:"h"`
}

type c34CodeArea struct {
	Prompt      c34Text   `json:"prompt,omitempty"`
	RPrompt     c34Text   `json:"rprompt,omitempty"`
	Code        string    `json:"code"`
	Dot         int       `json:"dot"` // rune index, clamped
	PendFrom    int       `json:"pend_from"`
	PendTo      int       `json:"pend_to"` // rune indices, clamped and ordered
	PendContent string    `json:"pend_content,omitempty"`
	HasPending  bool      `json:"has_pending,omitempty"`
	Tips        []c34Text `json:"tips,omitempty"`
	HideRPrompt bool      `json:"hide_rprompt,omitempty"`
	HideTips    bool      `json:"hide_tips,omitempty"`
	CodeStyle   int       `json:"code_style"` // 0: unstyled; k>0: style changes every k runes
}

type c34ListBox struct {
	Items       []c34Text `json:"items"`
	Selected    int       `json:"selected"`
	First       int       `json:"first"`
	Padding     int       `json:"padding"`
	ExtendStyle bool      `json:"extend_style,omitempty"`
	Horizontal  bool      `json:"horizontal,omitempty"`
	Placeholder c34Text   `json:"placeholder,omitempty"`
}

type c34TextView struct {
	Lines      []string `json:"lines"`
	First      int      `json:"first"`
	Scrollable bool     `json:"scrollable,omitempty"`
	Scroll     []int    `json:"scroll,omitempty"` // ScrollBy deltas applied before each render
}

type c34Widget struct {
	Kind     string       `json:"kind"` // codearea listbox textview label combobox
	Sizes    []c34Size    `json:"sizes"`
	CodeArea *c34CodeArea `json:"codearea,omitempty"`
	ListBox  *c34ListBox  `json:"listbox,omitempty"`
	TextView *c34TextView `json:"textview,omitempty"`
	Label    c34Text      `json:"label,omitempty"`
}

func c34GenText(t *rapid.T, label string, maxSegs, maxRunes int, o c34StrOpt) c34Text {
	n := rapid.IntRange(0, maxSegs).Draw(t, label+"segs")
	var out c34Text
	for i := 0; i < n; i++ {
		out = append(out, c34Seg{S: c34GenStr(t, label, maxRunes, o), St: rapid.IntRange(0, len(c34Styles)-1).Draw(t, label+"st")})
	}
	return out
}

func c34GenCodeArea(t *rapid.T, control bool) *c34CodeArea {
	o := c34StrOpt{newline: true, control: control}
	ca := &c34CodeArea{}
	switch rapid.IntRange(0, 3).Draw(t, "promptk") {
	case 0:
	case 1:
		ca.Prompt = c34Text{{S: "~> "}}
	default:
		ca.Prompt = c34GenText(t, "prompt", 2, 8, o)
	}
	if rapid.IntRange(0, 2).Draw(t, "rpromptk") > 0 {
		ca.RPrompt = c34GenText(t, "rprompt", 2, 6, c34StrOpt{newline: rapid.IntRange(0, 5).Draw(t, "rpnl") == 0, control: control})
	}
	maxCode := rapid.SampledFrom([]int{4, 12, 40, 120}).Draw(t, "codemax")
	ca.Code = c34GenStr(t, "code", maxCode, o)
	n := utf8.RuneCountInString(ca.Code)
	ca.Dot = rapid.IntRange(0, n).Draw(t, "dot")
	if rapid.IntRange(0, 2).Draw(t, "pend") == 0 {
		ca.HasPending = true
		a := rapid.IntRange(0, n).Draw(t, "pf")
		b := rapid.IntRange(0, n).Draw(t, "pt")
		if a > b {
			a, b = b, a
		}
		ca.PendFrom, ca.PendTo = a, b
		ca.PendContent = c34GenStr(t, "pendc", 10, o)
	}
	nt := rapid.IntRange(0, 2).Draw(t, "ntips")
	for i := 0; i < nt; i++ {
		ca.Tips = append(ca.Tips, c34GenText(t, "tip", 2, 20, o))
	}
	ca.HideRPrompt = rapid.IntRange(0, 5).Draw(t, "hider") == 0
	ca.HideTips = rapid.IntRange(0, 5).Draw(t, "hidet") == 0
	ca.CodeStyle = rapid.IntRange(0, 4).Draw(t, "cstyle")
	return ca
}

func c34GenListBox(t *rapid.T, control bool) *c34ListBox {
	lb := &c34ListBox{}
	lb.Horizontal = rapid.Bool().Draw(t, "horizontal")
	n := rapid.SampledFrom([]int{0, 1, 2, 3, 5, 8, 13, 30}).Draw(t, "nitems")
	o := c34StrOpt{newline: !lb.Horizontal, control: control}
	maxRunes := rapid.SampledFrom([]int{3, 8, 20}).Draw(t, "itemlen")
	for i := 0; i < n; i++ {
		it := c34GenText(t, "item", 2, maxRunes, o)
		if !lb.Horizontal && rapid.IntRange(0, 3).Draw(t, "multi") == 0 {
			// a taller item
			k := rapid.IntRange(1, 6).Draw(t, "extra")
			for j := 0; j < k; j++ {
				it = append(it, c34Seg{S: "\n" + c34GenStr(t, "itemline", 5, c34StrOpt{control: control})})
			}
		}
		lb.Items = append(lb.Items, it)
	}
	if n > 0 {
		lb.Selected = rapid.IntRange(0, n-1).Draw(t, "selected")
		lb.First = rapid.IntRange(0, n-1).Draw(t, "first")
	}
	lb.Padding = rapid.SampledFrom([]int{0, 0, 1}).Draw(t, "padding")
	lb.ExtendStyle = rapid.Bool().Draw(t, "extend")
	lb.Placeholder = c34GenText(t, "placeholder", 2, 10, c34StrOpt{newline: true, control: control})
	return lb
}

func c34GenWidget(t *rapid.T) c34Widget {
	w := c34Widget{Kind: rapid.SampledFrom([]string{"codearea", "codearea", "listbox", "listbox", "listbox", "textview", "label", "combobox"}).Draw(t, "kind")}
	control := rapid.IntRange(0, 3).Draw(t, "control") == 0
	ns := rapid.IntRange(1, 3).Draw(t, "nsizes")
	for i := 0; i < ns; i++ {
		var sz c34Size
		if rapid.IntRange(0, 2).Draw(t, "small") == 0 {
			sz.W = rapid.IntRange(2, 6).Draw(t, "w")
		} else {
			sz.W = rapid.IntRange(2, 40).Draw(t, "w")
		}
		if rapid.IntRange(0, 2).Draw(t, "short") == 0 {
			sz.H = rapid.IntRange(1, 3).Draw(t, "h")
		} else {
			sz.H = rapid.IntRange(1, 12).Draw(t, "h")
		}
		w.Sizes = append(w.Sizes, sz)
	}
	switch w.Kind {
	case "codearea":
		w.CodeArea = c34GenCodeArea(t, control)
	case "listbox":
		w.ListBox = c34GenListBox(t, control)
	case "combobox":
		w.CodeArea = c34GenCodeArea(t, control)
		w.ListBox = c34GenListBox(t, control)
	case "textview":
		tv := &c34TextView{}
		n := rapid.SampledFrom([]int{0, 1, 2, 5, 12, 30}).Draw(t, "nlines")
		for i := 0; i < n; i++ {
			tv.Lines = append(tv.Lines, c34GenStr(t, "line", 30, c34StrOpt{control: control}))
		}
		if n > 0 {
			tv.First = rapid.IntRange(0, n-1).Draw(t, "first")
		}
		tv.Scrollable = rapid.IntRange(0, 3).Draw(t, "scrollable") > 0
		for range w.Sizes {
			tv.Scroll = append(tv.Scroll, rapid.IntRange(-3, 3).Draw(t, "scroll"))
		}
		w.TextView = tv
	case "label":
		w.Label = c34GenText(t, "label", 3, 30, c34StrOpt{newline: true, control: control})
	}
	c34ExcludeOpen(&w)
	return w
}

// Keys of the findings this check produced (see known_findings.json). While a
// key is listed as open the generator leaves out exactly its shape, so that the
// search continues behind it; the Known cases below re-check each shape.
const (
	c34KeyExtend  = "C34:listbox-extendstyle-empty-right-spacing"
	c34KeyCrop    = "C34:listbox-vertical-bottom-crop"
	c34KeyControl = "C34:control-chars-cropped-as-zero-width"
	c34KeyScroll  = "C34:textview-scrollby-empty"
)

func c34StripControl(s string) string {
	return strings.Map(func(r rune) rune {
		if r != '\n' && (r < 0x20 || (r >= 0x7f && r < 0xa0)) {
			return -1
		}
		return r
	}, s)
}

// c34ExcludeOpen rewrites a drawn case so that it avoids the shapes of the
// open findings (a pure function of the case and of known_findings.json).
func c34ExcludeOpen(w *c34Widget) {
	if lb := w.ListBox; lb != nil {
		if vs.KnownOpen(c34KeyControl) {
			hit := false
			for _, it := range lb.Items {
				for k := range it {
					if c34HasControl(it[k].S) {
						it[k].S = c34StripControl(it[k].S)
						hit = true
					}
				}
			}
			if hit {
				vs.Excluded("control characters in list box items (" + c34KeyControl + ")")
			}
		}
		if vs.KnownOpen(c34KeyCrop) && !lb.Horizontal {
			// The bottom crop is only wrong for an item of >= 3 lines.
			hit := false
			for i, it := range lb.Items {
				lines := 1
				var out c34Text
				for _, seg := range it {
					var sb strings.Builder
					for _, r := range seg.S {
						if r == '\n' {
							lines++
							if lines > 2 {
								hit = true
								continue
							}
						}
						sb.WriteRune(r)
					}
					out = append(out, c34Seg{S: sb.String(), St: seg.St})
				}
				lb.Items[i] = out
			}
			if hit {
				vs.Excluded("vertical list box item with 3 or more lines (" + c34KeyCrop + ")")
			}
		}
		if vs.KnownOpen(c34KeyExtend) && lb.ExtendStyle {
			hit := false
			if lb.Horizontal {
				// a column can be 0 columns wide only if a non-empty item has width 0
				for _, it := range lb.Items {
					if s := it.str(); s != "" && c34Width(s) == 0 {
						hit = true
					}
				}
				// ... or, with padding 1, if a later column is cropped to the
				// one column that is left
				hit = (hit && lb.Padding == 0) || lb.Padding == 1
			} else if lb.Padding == 1 {
				// content width 1 = width 2 with a scrollbar
				for _, sz := range w.Sizes {
					if sz.W == 2 {
						hit = true
					}
				}
			}
			if hit {
				lb.ExtendStyle = false
				vs.Excluded("ExtendStyle list box whose content area can be exactly as wide as its padding (" + c34KeyExtend + ")")
			}
		}
	}
	if tv := w.TextView; tv != nil {
		if vs.KnownOpen(c34KeyControl) {
			hit := false
			for i, l := range tv.Lines {
				if c34HasControl(l) {
					tv.Lines[i] = c34StripControl(l)
					hit = true
				}
			}
			if hit {
				vs.Excluded("control characters in text view lines (" + c34KeyControl + ")")
			}
		}
		if vs.KnownOpen(c34KeyScroll) && len(tv.Lines) == 0 {
			for i := range tv.Scroll {
				if tv.Scroll[i] != 0 {
					tv.Scroll[i] = 0
					vs.Excluded("ScrollBy on a text view without lines (" + c34KeyScroll + ")")
				}
			}
		}
	}
}

type c34Items []ui.Text

func (it c34Items) Show(i int) ui.Text { return it[i] }
func (it c34Items) Len() int           { return len(it) }

func c34RuneToByte(s string, ri int) int {
	if ri <= 0 {
		return 0
	}
	i := 0
	for b := range s {
		if i == ri {
			return b
		}
		i++
	}
	return len(s)
}

func (ca *c34CodeArea) spec() tk.CodeAreaSpec {
	tips := make([]ui.Text, len(ca.Tips))
	for i, tp := range ca.Tips {
		tips[i] = tp.ui()
	}
	prompt, rprompt := ca.Prompt.ui(), ca.RPrompt.ui()
	style := ca.CodeStyle
	spec := tk.CodeAreaSpec{
		Prompt:  func() ui.Text { return prompt },
		RPrompt: func() ui.Text { return rprompt },
		Highlighter: func(code string) (ui.Text, []ui.Text) {
			if style <= 0 {
				return ui.T(code), tips
			}
			var parts []ui.Text
			rs := []rune(code)
			for i, k := 0, 0; i < len(rs); i, k = i+style, k+1 {
				j := i + style
				if j > len(rs) {
					j = len(rs)
				}
				st := c34Styles[1+k%(len(c34Styles)-1)]
				parts = append(parts, ui.T(string(rs[i:j]), st))
			}
			return ui.Concat(parts...), tips
		},
	}
	spec.State.Buffer = tk.CodeBuffer{Content: ca.Code, Dot: c34RuneToByte(ca.Code, ca.Dot)}
	if ca.HasPending {
		from, to := ca.PendFrom, ca.PendTo
		if from > to {
			from, to = to, from
		}
		spec.State.Pending = tk.PendingCode{From: c34RuneToByte(ca.Code, from), To: c34RuneToByte(ca.Code, to), Content: ca.PendContent}
	}
	spec.State.HideRPrompt = ca.HideRPrompt
	spec.State.HideTips = ca.HideTips
	return spec
}

func (lb *c34ListBox) spec() tk.ListBoxSpec {
	items := make(c34Items, len(lb.Items))
	for i, it := range lb.Items {
		items[i] = it.ui()
	}
	spec := tk.ListBoxSpec{Horizontal: lb.Horizontal, Padding: lb.Padding, ExtendStyle: lb.ExtendStyle, Placeholder: lb.Placeholder.ui()}
	spec.State = tk.ListBoxState{Items: items, Selected: lb.Selected, First: lb.First}
	return spec
}

func c34BufferFits(b *term.Buffer, sz c34Size, what string) error {
	if b == nil {
		return fmt.Errorf("%s at %dx%d: Render returned nil", what, sz.W, sz.H)
	}
	if len(b.Lines) > sz.H {
		return fmt.Errorf("%s rendered at width %d height %d: %d lines, more than the height\n%s", what, sz.W, sz.H, len(b.Lines), c34Dump(b))
	}
	for i, line := range b.Lines {
		w := 0
		for _, c := range line {
			w += c34Width(c.Text)
		}
		if w > sz.W {
			return fmt.Errorf("%s rendered at width %d height %d: line %d is %d columns wide\n%s", what, sz.W, sz.H, i, w, c34Dump(b))
		}
	}
	return nil
}

func c34Dump(b *term.Buffer) string {
	var sb strings.Builder
	for i, line := range b.Lines {
		if i >= 20 {
			sb.WriteString("...\n")
			break
		}
		sb.WriteString("  |")
		for _, c := range line {
			q := fmt.Sprintf("%q", c.Text)
			sb.WriteString(q[1 : len(q)-1])
		}
		sb.WriteString("|\n")
	}
	return sb.String()
}

func c34CheckWidget(c c34Widget) error {
	var r tk.Renderer
	var tv tk.TextView
	switch c.Kind {
	case "codearea":
		r = tk.NewCodeArea(c.CodeArea.spec())
	case "listbox":
		r = tk.NewListBox(c.ListBox.spec())
	case "combobox":
		r = tk.NewComboBox(tk.ComboBoxSpec{CodeArea: c.CodeArea.spec(), ListBox: c.ListBox.spec()})
	case "textview":
		tv = tk.NewTextView(tk.TextViewSpec{Scrollable: c.TextView.Scrollable,
			State: tk.TextViewState{Lines: append([]string(nil), c.TextView.Lines...), First: c.TextView.First}})
		r = tv
	case "label":
		r = tk.Label{Content: c.Label.ui()}
	default:
		return fmt.Errorf("bad case kind %q", c.Kind)
	}
	for i, sz := range c.Sizes {
		if sz.W < 2 || sz.H < 1 {
			return fmt.Errorf("bad case: size %v outside the property's domain", sz)
		}
		if tv != nil && i < len(c.TextView.Scroll) && c.TextView.Scroll[i] != 0 {
			tv.ScrollBy(c.TextView.Scroll[i])
		}
		b := r.Render(sz.W, sz.H)
		if err := c34BufferFits(b, sz, fmt.Sprintf("%s (render #%d)", c.Kind, i+1)); err != nil {
			return err
		}
	}
	return nil
}

func c34HasControl(ss ...string) bool {
	for _, s := range ss {
		for _, r := range s {
			if r != '\n' && (r < 0x20 || (r >= 0x7f && r < 0xa0)) {
				return true
			}
		}
	}
	return false
}

func (c c34Widget) allText() []string {
	var out []string
	if c.CodeArea != nil {
		out = append(out, c.CodeArea.Prompt.str(), c.CodeArea.RPrompt.str(), c.CodeArea.Code, c.CodeArea.PendContent)
		for _, t := range c.CodeArea.Tips {
			out = append(out, t.str())
		}
	}
	if c.ListBox != nil {
		for _, t := range c.ListBox.Items {
			out = append(out, t.str())
		}
		out = append(out, c.ListBox.Placeholder.str())
	}
	if c.TextView != nil {
		out = append(out, c.TextView.Lines...)
	}
	out = append(out, c.Label.str())
	return out
}

func c34ClassWidget(c c34Widget) (string, bool) {
	kind := c.Kind
	if c.Kind == "listbox" {
		if c.ListBox.Horizontal {
			kind = "listbox-h"
		} else {
			kind = "listbox-v"
		}
	}
	// does the content exceed the box at some size (so that cropping /
	// wrapping / scrolling is exercised)?
	total, maxw := 0, 0
	for _, s := range c.allText() {
		for _, l := range strings.Split(s, "\n") {
			total++
			if w := c34Width(l); w > maxw {
				maxw = w
			}
		}
	}
	over := false
	for _, sz := range c.Sizes {
		if maxw > sz.W || total > sz.H {
			over = true
		}
	}
	suffix := "/fits"
	if over {
		suffix = "/overflowing"
	}
	if c34HasControl(c.allText()...) {
		suffix += "+ctl"
	}
	return kind + suffix, over
}

func init() {
	vs.Register(vs.Prop[c34Widget]{
		Name: "C34/widgets",
		Rule: "a widget (CodeArea with prompt/rprompt/pending code/tips/highlighting, ListBox vertical with multi-line items or horizontal with one-line items incl. padding 0/1 and ExtendStyle, TextView scrollable or not after ScrollBy, Label, ComboBox) whose texts come from the width alphabet (1 in 4 cases with control characters), rendered 1..3 times in a row at width 2..40 (1/3 at 2..6) and height 1..12 (1/3 at 1..3); non-trivial = some text is wider than the box or has more lines than the box at one of the sizes",
		Gen:  c34GenWidget, Check: c34CheckWidget, Class: c34ClassWidget,
		Quick: 10000, Thorough: 80000,
		Timeout: 30 * time.Second,
		Known: []vs.Known[c34Widget]{
			{Key: c34KeyExtend, Case: c34Widget{Kind: "listbox", Sizes: []c34Size{{2, 1}},
				ListBox: &c34ListBox{Items: []c34Text{{{S: "a"}}, {{S: "b"}}}, Padding: 1, ExtendStyle: true}}},
			{Key: c34KeyCrop, Case: c34Widget{Kind: "listbox", Sizes: []c34Size{{10, 1}},
				ListBox: &c34ListBox{Items: []c34Text{{{S: "a\nb\nc"}}}}}},
			{Key: c34KeyControl, Case: c34Widget{Kind: "textview", Sizes: []c34Size{{2, 1}},
				TextView: &c34TextView{Lines: []string{"\tab"}}}},
			{Key: c34KeyScroll, Case: c34Widget{Kind: "textview", Sizes: []c34Size{{5, 1}},
				TextView: &c34TextView{Scroll: []int{1}}}},
		},
	})
}
