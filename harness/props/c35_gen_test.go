package props

// C35 generator: a grammar of Markdown documents inside the subset that
// pkg/md documents as supported (spaces only, LF only, ATX headings, fenced and
// indented code, block quotes, lists that are loose by construction, thematic
// breaks, HTML blocks, and every inline construct), a "token soup" generator
// that strings Markdown tokens together without regard to structure, and
// mutation of the CommonMark spec examples. Documents that leave the subset are
// recognised by c35Outside / c35Reference and counted as excluded.

import (
	"strings"

	"pgregory.net/rapid"
)

func c35Pick(t *rapid.T, label string, xs ...string) string {
	return rapid.SampledFrom(xs).Draw(t, label)
}

// c35Uniform draws 0..n-1 (n <= 128) uniformly. rapid's integer and
// SampledFrom generators are deliberately biased towards small values (a
// nominal 4% branch on IntRange(0,99) is taken about 30% of the time); the
// choice between kinds of blocks and atoms should follow the stated weights,
// so it is built from fair coin flips.
func c35Uniform(t *rapid.T, label string, n int) int {
	v := 0
	for i := 0; i < 7; i++ {
		v <<= 1
		if rapid.Bool().Draw(t, label) {
			v |= 1
		}
	}
	return v * n / 128
}

func c35Chance(t *rapid.T, label string, percent int) bool {
	return c35Uniform(t, label, 100) < percent
}

var c35Words = []string{"a", "b", "foo", "bar", "x1", "é", "世界", "Z", "0", "12", "http", "a.b", "ß"}

const c35ASCIIPunct = "!\"#$%&'()*+,-./:;<=>?@[\\]^_`{|}~"

var c35EntityAtoms = []string{
	"&amp;", "&lt;", "&gt;", "&apos;", "&nbsp;", "&Tab;", "&NewLine;",
	"&#35;", "&#x22;", "&#X2A;", "&#42;", "&#95;", "&#32;", "&#10;", "&#1234;", "&#x1F600;", "&#1114112;", "&#xD800;", "&#9999999;",
	"&#12345678;", "&#;", "&#x;", "&#xabcdefg;", "&amp", "&x;", "&nosuchentity;", "&", "&;", "&#a;", "&#92;", "&#96;", "&#60;", "&#91;",
}

var c35Autolinks = []string{
	"<http://a.b/c>", "<https://x.y/?q=1&r=2>", "<mailto:a@b.c>", "<a@b.c>", "<a.b+c@d-e.f>", "<ab:c>", "<a:b>", "<http://a b>", "<http://a.b/<c>",
	"<http://a.b/\\*>", "<http://a.b/&amp;>", "<http://a.b/é>", "<made-up+scheme.x:foo[bar]`>", "<a@b>", "<a@b.>", "<a@-b.c>", "<@b.c>", "<http://>", "<http:>", "<h:/>",
	"<aaaaaaaaaaaaaaaaaaaaaaaaaaaaaaaa:b>", "<a@b_c.d>", "<a\\@b.c>",
}

var c35RawHTML = []string{
	"<a>", "</a>", "<b/>", "<b />", "<a href=\"x\">", "<a href='y' title=\"z\">", "<a b=c>", "<a b>", "<a b = c d='e'>", "<a  /  >", "<a\nb>", "<a b=\"c\nd\">",
	"<i class=\"*x*\">", "<a href=\"[x](y)\">", "</a >", "</a\n>", "</a b>", "<a/b>", "<a b='>", "<33>", "<_a>", "<a_b>", "<a:b c>", "< a>", "<a h*#ref=\"hi\">",
	"<a href=\"hi'>", "<a href=hi'>", "<!-- c -->", "<!-- a\nb -->", "<!--c-->", "<?php x ?>", "<??>", "<?>", "<? a\nb ?>", "<!DOCTYPE html>", "<!ELEMENT br EMPTY>", "<!X >",
	"<![CDATA[>&<]]>", "<![CDATA[a]]b]]>", "<![CDATA[", "<!--", "<!-- x", "<?x", "<a", "<a href=\"", "<a x=\"&amp;\">", "<a x=\"\\*\">", "<br>", "<br/>", "<img src=x>",
	"<div>", "</div>", "<span a_1:-.=\"1\">", "<a b=`c`>", "<a b=c'd>", "<a b=\"c\"d>", "<a b=\"c\" d>", "<A B=C>", "<a-b c-d=e>", "<a1>",
}

// c35Inline draws inline content; multi says whether line breaks may occur.
func c35Inline(t *rapid.T, depth int, multi bool) string {
	n := 1 + c35Uniform(t, "inl#", 2)
	if depth == 0 {
		n = 1 + c35Uniform(t, "inl#0", 5)
	}
	var sb strings.Builder
	for i := 0; i < n; i++ {
		if i > 0 && c35Chance(t, "sp", 55) {
			sb.WriteByte(' ')
		}
		sb.WriteString(c35InlineAtom(t, depth, multi))
	}
	return sb.String()
}

func c35InlineAtom(t *rapid.T, depth int, multi bool) string {
	k := c35Uniform(t, "atom", 100)
	if depth >= 3 && k >= 40 && k < 70 {
		k = k % 40
	}
	if depth >= 1 && k >= 52 && k < 64 && c35Chance(t, "flatten", 60) {
		k = k % 40 // links and images inside emphasis/link text: mostly plain content
	}
	switch {
	case k < 22:
		return rapid.SampledFrom(c35Words).Draw(t, "word")
	case k < 32:
		i := rapid.IntRange(0, len(c35ASCIIPunct)-1).Draw(t, "punct")
		return c35ASCIIPunct[i : i+1]
	case k < 36:
		i := rapid.IntRange(0, len(c35ASCIIPunct)+2).Draw(t, "esc")
		if i >= len(c35ASCIIPunct) {
			return "\\" + []string{"a", " ", "é"}[i-len(c35ASCIIPunct)]
		}
		return "\\" + c35ASCIIPunct[i:i+1]
	case k < 40:
		return rapid.SampledFrom(c35EntityAtoms).Draw(t, "ent")
	case k < 52: // emphasis
		open := c35Pick(t, "em", "*", "**", "_", "__", "***", "*", "**", "_", "___", "****")
		close := open
		if c35Chance(t, "emx", 15) {
			close = c35Pick(t, "emc", "*", "**", "_", "__", "***", "")
		}
		inner := c35Inline(t, depth+1, multi)
		if c35Chance(t, "emsp", 8) {
			inner = " " + inner
		}
		if c35Chance(t, "emsp2", 8) {
			inner += " "
		}
		return open + inner + close
	case k < 64: // link / image
		pre := ""
		if c35Chance(t, "img", 30) {
			pre = "!"
		}
		text := ""
		if !c35Chance(t, "emptytext", 8) {
			text = c35Inline(t, depth+2, multi)
		}
		return pre + "[" + text + "]" + c35LinkTail(t, multi)
	case k < 70: // code span
		ticks := c35Pick(t, "ticks", "`", "`", "``", "```")
		close := ticks
		if c35Chance(t, "tickx", 12) {
			close = c35Pick(t, "tickc", "`", "``", "```", "")
		}
		body := c35Pick(t, "code", "a", "a b", " a ", "  ", " ", "*a*", "[a](b)", "`", " `` ", "a`b", "\\", "&amp;", "<b>", "a  b", " a", "a ", "\\`", "foo\\")
		if multi && c35Chance(t, "codenl", 15) {
			body = c35Pick(t, "codeml", "a\nb", "\na\n", "a\n b", " \n ", "a \nb")
		}
		return ticks + body + close
	case k < 75:
		return rapid.SampledFrom(c35Autolinks).Draw(t, "auto")
	case k < 83:
		s := rapid.SampledFrom(c35RawHTML).Draw(t, "raw")
		if !multi {
			s = strings.ReplaceAll(s, "\n", " ")
		}
		return s
	case k < 89: // stray delimiter material
		return c35Pick(t, "stray", "*", "**", "_", "__", "[", "]", "![", "](", "](x)", "`", "``", "\\", "<", ">", "!", "&", "(", ")", "***", "_*", "*_", "]]", "[[", "][", "[]", "[x]", "[x][y]", "[x][]")
	case k < 94:
		return c35Pick(t, "glued", "a*b*c", "a_b_c", "a**b**c", "a__b__c", "*a*b", "_a_b", "a*b", "a_b", "*(a)*", "_(a)_", "*(*a*)*", "_(_a_)_", "a*\"b\"*", "**a*b", "*a**b", "*a **b** c*", "__a_b", "_a__b_")
	default:
		if !multi {
			return c35Pick(t, "brk1", "  ", "\\", " ")
		}
		brk := c35Pick(t, "brk", "\n", "\n", "  \n", "\\\n", " \n", "   \n", "\n ", "\n   ", "  \n  ", "\\\n\\\n")
		if c35Chance(t, "trigger", 35) {
			brk += c35Pick(t, "trig", "# ", "#", "## ", "> ", ">", "> ", "-", "+", "2. ", "***", "___", "* * *", "    ", "```", "~~~", "<div>", "</div>", "<!-- c -->", "<a>", "</b>", "<pre>", "<?x", "<!X ", "\\", "10. ", "-\n", "1.\n", "1)", "####### ", "- ", "1. ", "+ ", "[x]: /u", "=")
		}
		return brk
	}
}

func c35LinkTail(t *rapid.T, multi bool) string {
	k := c35Uniform(t, "tail", 100)
	switch {
	case k < 6:
		return ""
	case k < 10:
		return c35Pick(t, "reftail", "[]", "[x]", "[ ]", "(", "()", "( )", "(<>)", "(\n)")
	}
	ws := func(label string) string {
		if multi {
			return c35Pick(t, label, "", "", "", " ", "  ", "\n", " \n ")
		}
		return c35Pick(t, label, "", "", "", " ", "  ")
	}
	var dest string
	dk := c35Uniform(t, "destk", 10)
	destAtoms := []string{"/url", "a", "b", "(c)", "(", ")", "\\(", "\\)", "&amp;", "&", "%20", "%C3%A9x", "é", "#f", "?q=1", "\\", "\\\\", "*", "_", "`", "\"", "'", "[", "]", "!", "\\a", "&#35;", "&x;", "..", ":", "((", "))", "\\<", "\\>", "{", "}", "|", "^", "~", "\x7f", "a\x7fb"}
	switch {
	case dk < 5:
		n := rapid.IntRange(1, 4).Draw(t, "dest#")
		for i := 0; i < n; i++ {
			dest += rapid.SampledFrom(destAtoms).Draw(t, "desta")
		}
	case dk < 8:
		n := rapid.IntRange(0, 4).Draw(t, "adest#")
		for i := 0; i < n; i++ {
			dest += rapid.SampledFrom(append(destAtoms, " ", "<", ">", "\\<", "\\>", "  ")).Draw(t, "adesta")
		}
		dest = "<" + dest + ">"
	case dk < 9:
		dest = c35Pick(t, "destx", "", "<>", "<", "<a", "a b", "<a>b", "/u\\", "&#32;", "<&#10;>", "\\ ", "a\\ b")
	default:
		dest = "/url"
	}
	title := ""
	if c35Chance(t, "title", 45) {
		q := c35Pick(t, "q", "\"", "'", "(")
		qc := q
		if q == "(" {
			qc = ")"
		}
		body := ""
		n := rapid.IntRange(0, 3).Draw(t, "title#")
		for i := 0; i < n; i++ {
			body += c35Pick(t, "titlea", "t", "a b", "\\\"", "\\'", "\\(", "\\)", "\"", "'", "(", ")", "&amp;", "&quot", "&#34;", "\\", "\\\\", "*", "é", " ", "<b>", "[", "]", "&")
		}
		if multi && c35Chance(t, "titlenl", 10) {
			body += c35Pick(t, "titleml", "\n", "a\nb", "\n\n")
		}
		if c35Chance(t, "titlex", 8) {
			qc = c35Pick(t, "qc", "", "\"", "'", ")")
		}
		sep := c35Pick(t, "titlesep", " ", " ", " ", "  ", "")
		if multi && c35Chance(t, "titlesepnl", 10) {
			sep = "\n"
		}
		title = sep + q + body + qc
	}
	close := ")"
	if c35Chance(t, "tailx", 5) {
		close = c35Pick(t, "tailclose", "", " x)", "))")
	}
	return "(" + ws("ws1") + dest + title + ws("ws2") + close
}

// ---- blocks ---------------------------------------------------------------------

// c35Blocks draws a sequence of blocks as lines (without container prefixes).
func c35Blocks(t *rapid.T, depth int) []string {
	n := 1
	if depth == 0 {
		n = 1 + c35Uniform(t, "blocks#0", 3)
	} else if c35Chance(t, "blocks#", 30) {
		n = 2
	}
	var lines []string
	for i := 0; i < n; i++ {
		if i > 0 {
			switch k := c35Uniform(t, "sep", 10); {
			case k < 7:
				lines = append(lines, "")
			case k < 8:
				lines = append(lines, "", "")
			case k < 9:
				// blank lines of spaces; lines of Unicode white space other than
				// space and tab are NOT blank (CommonMark 2.1): they are text
				lines = append(lines, c35Pick(t, "blankws", " ", "  ", "    ", "     ", " ", "  ", "\u00a0", "\u3000", " \u00a0", "\u2003\u00a0", "\u0085", "\u00a0 "))
			}
		}
		lines = append(lines, c35Block(t, depth)...)
	}
	return lines
}

func c35Indent(t *rapid.T) string {
	return c35Pick(t, "indent", "", "", "", "", "", " ", "  ", "   ")
}

var c35CodeLines = []string{"code", "  two", "    four", "", "", "*a*", "# h", "- x", "> q", "<b>", "&amp;", "\\", "```", "~~~", "``", "~~", "````", "`", "a  ", " ", "   ", "    ", "[a](b)", "</pre>", "-->", "1. x", "***", "é"}

func c35Block(t *rapid.T, depth int) []string {
	k := c35Uniform(t, "block", 100)
	if depth >= 3 && k >= 56 && k < 90 {
		k = 0
	}
	switch {
	case k < 26: // paragraph
		s := c35Indent(t) + c35Inline(t, 0, true)
		if c35Chance(t, "trail", 10) {
			s += c35Pick(t, "trailws", " ", "  ", "   ", "\\")
		}
		return strings.Split(s, "\n")
	case k < 34: // ATX heading
		hashes := c35Pick(t, "hashes", "#", "##", "###", "####", "#####", "######", "#######", "#", "##")
		body := ""
		switch bk := c35Uniform(t, "hbody", 10); {
		case bk < 1:
		case bk < 2:
			body = c35Pick(t, "hsp", " ", "  ", "#", " #", " ##  ", "\\#", " \\#")
		default:
			body = c35Pick(t, "hgap", " ", " ", "  ", "     ") + c35Inline(t, 1, false)
			body += c35Pick(t, "hclose", "", "", "", " #", " ##", "  ###  ", "#", " \\#", " #\\#", " ####### ", " # #", "  ")
		}
		return []string{c35Indent(t) + hashes + body}
	case k < 40: // thematic break
		return []string{c35Indent(t) + c35Pick(t, "hr", "***", "---", "___", "* * *", "- - -", "_ _ _", "*****", "- - - -", "**  * ** * ** * **", " -  -  -", "***  ", "_____________", "--", "**", "*-*", "--- a", "a---", "---a", "+++", "===")}
	case k < 50: // fenced code
		fence := c35Pick(t, "fence", "```", "```", "~~~", "````", "~~~~", "`````", "``", "~~")
		info := ""
		if c35Chance(t, "info", 50) {
			info = c35Pick(t, "infosp", "", " ", "  ") + c35Pick(t, "info", "go", "elvish foo", "a&amp;b", "a\\*b", "é", ";", "{.x}", "a~b", "~", "a`b", "&#35;", "\\", "\\\\", "a  b  ", "*z*", "<b>", "a\\ b", "-", "&amp;c", "&#32;y")
		}
		ind := c35Indent(t)
		lines := []string{ind + fence + info}
		n := rapid.IntRange(0, 4).Draw(t, "code#")
		for i := 0; i < n; i++ {
			l := rapid.SampledFrom(c35CodeLines).Draw(t, "codeline")
			if l != "" {
				l = c35Indent(t) + l
			}
			lines = append(lines, l)
		}
		switch ck := c35Uniform(t, "fclose", 10); {
		case ck < 6:
			lines = append(lines, ind+fence)
		case ck < 7:
			lines = append(lines, c35Indent(t)+fence+fence[:1]+c35Pick(t, "fclosews", "", " ", "   "))
		case ck < 8:
			lines = append(lines, c35Pick(t, "fbad", "    "+fence, fence+" x", fence[:2], "``` ```", "~~~ ~"))
		}
		return lines
	case k < 56: // indented code
		n := rapid.IntRange(1, 4).Draw(t, "icode#")
		var lines []string
		for i := 0; i < n; i++ {
			l := rapid.SampledFrom(c35CodeLines).Draw(t, "icodeline")
			if l == "" || strings.Trim(l, " ") == "" {
				lines = append(lines, l)
			} else {
				lines = append(lines, c35Pick(t, "icodeind", "    ", "    ", "     ", "      ")+l)
			}
		}
		return lines
	case k < 66: // block quote
		inner := c35Blocks(t, depth+1)
		out := make([]string, len(inner))
		marker := c35Pick(t, "bq", "> ", "> ", "> ", ">", " > ", "   > ", ">  ", ">    ")
		for i, l := range inner {
			switch {
			case i > 0 && inner[i-1] != "" && l != "" && c35Chance(t, "lazy", 8):
				out[i] = l // lazy continuation (or whatever it turns out to be)
			case l == "" && c35Chance(t, "bqgap", 12):
				out[i] = "" // ends the quote
			case l == "":
				out[i] = strings.TrimRight(marker, " ") + c35Pick(t, "bqblank", "", "", " ", "  ")
			default:
				out[i] = marker + l
			}
		}
		return out
	case k < 90: // list, loose by construction
		ordered := c35Chance(t, "ordered", 40)
		var punct string
		start := 1
		if ordered {
			punct = c35Pick(t, "opunct", ".", ")")
			start = rapid.SampledFrom([]int{1, 1, 1, 0, 2, 7, 10, 99, 123456789, 999999999, 1234567890, 3}).Draw(t, "start")
		} else {
			punct = c35Pick(t, "bpunct", "-", "+", "*")
		}
		nitems := 2
		switch ik := c35Uniform(t, "items#", 10); {
		case ik < 2:
			nitems = 1
		case ik >= 7:
			nitems = 3
		}
		var lines []string
		lead := c35Indent(t)
		for it := 0; it < nitems; it++ {
			marker := punct
			if ordered {
				marker = c35Itoa(start+it) + punct
				if start > 999999990 {
					marker = c35Itoa(start) + punct
				}
				if c35Chance(t, "leadzero", 5) {
					marker = "0" + marker
				}
			}
			gap := c35Pick(t, "gap", " ", " ", " ", "  ", "   ", "    ", "     ")
			var inner []string
			if nitems == 1 {
				// a single item is loose only if it holds two blocks separated by a blank line
				inner = append(c35Block(t, depth+1), "")
				inner = append(inner, c35Block(t, depth+1)...)
			} else if c35Chance(t, "emptyitem", 8) {
				inner = nil
			} else {
				inner = c35Blocks(t, depth+1)
			}
			if it > 0 {
				if c35Chance(t, "tightsep", 4) {
					// deliberately tight: leaves the subset, counted as excluded
				} else {
					lines = append(lines, "")
				}
			}
			width := len(lead) + len(marker) + len(gap)
			if len(gap) >= 5 {
				width = len(lead) + len(marker) + 1
			}
			if len(inner) == 0 {
				lines = append(lines, lead+marker+c35Pick(t, "emptygap", "", " ", "   "))
				continue
			}
			startBlank := c35Chance(t, "startblank", 7)
			if startBlank {
				lines = append(lines, lead+marker)
				width = len(lead) + len(marker) + 1
			}
			pad := strings.Repeat(" ", width)
			for i, l := range inner {
				switch {
				case i == 0 && !startBlank:
					if strings.HasPrefix(l, "    ") && len(gap) < 5 {
						// indented code as first block: one space after the marker
						lines = append(lines, lead+marker+" "+l)
						pad = strings.Repeat(" ", len(lead)+len(marker)+1)
					} else {
						lines = append(lines, lead+marker+gap+l)
					}
				case l == "":
					lines = append(lines, c35Pick(t, "itemblank", "", "", "", "", "", "", "", "", pad, " "))
				case i > 0 && inner[i-1] != "" && c35Chance(t, "lazyitem", 5):
					lines = append(lines, c35Pick(t, "lazypad", "", " ", pad[:len(pad)-1])+l)
				case c35Chance(t, "overindent", 5):
					lines = append(lines, pad+c35Pick(t, "over", " ", "  ", "   ")+l)
				default:
					lines = append(lines, pad+l)
				}
			}
		}
		return lines
	default: // HTML block
		kind := c35Uniform(t, "html", 10)
		ind := c35Indent(t)
		switch kind {
		case 0:
			tag := c35Pick(t, "t1", "pre", "script", "style", "textarea", "PRE", "Script")
			open := "<" + tag + c35Pick(t, "t1a", ">", " x=\"1\">", "", ">a", " y")
			lines := strings.Split(ind+open, "\n")
			n := rapid.IntRange(0, 3).Draw(t, "t1#")
			for i := 0; i < n; i++ {
				lines = append(lines, rapid.SampledFrom(c35CodeLines).Draw(t, "t1line"))
			}
			if c35Chance(t, "t1close", 75) {
				lines = append(lines, c35Pick(t, "t1pre", "", "x ")+"</"+tag+">"+c35Pick(t, "t1post", "", " *y*", "</"+tag+">"))
			}
			return lines
		case 1:
			return strings.Split(ind+c35Pick(t, "t2", "<!-- c -->", "<!-- a\n\nb -->", "<!-- a\n*b*\n-->", "<!-- a --> *b*", "<!-- a\n\n    b\n--> c", "<!--x-->y"), "\n")
		case 2:
			return strings.Split(ind+c35Pick(t, "t3", "<?php\n\n  echo '>';\n\n?>", "<? x ?>", "<?x\ny?> *z*", "<?"), "\n")
		case 3:
			return strings.Split(ind+c35Pick(t, "t4", "<!DOCTYPE html>", "<!DOCTYPE\n\nhtml>", "<!X\n*a*\n> b", "<!ELEMENT br EMPTY> *a*"), "\n")
		case 4:
			return strings.Split(ind+c35Pick(t, "t5", "<![CDATA[\nfunction f() { return 1 <2; }\n\n]]>", "<![CDATA[x]]>", "<![CDATA[\n*a*\n]]> *b*", "<![CDATA["), "\n")
		case 5, 6, 7:
			tag := c35Pick(t, "t6", "div", "table", "p", "h1", "ul", "li", "blockquote", "DIV", "details", "summary", "tr", "td", "hr", "section", "nav", "dl", "iframe", "link", "body", "head", "title", "form", "option")
			open := c35Pick(t, "t6o", "<", "</") + tag + c35Pick(t, "t6a", ">", ">", " class=\"x\">", "/>", "", " ", " id='a'", ">*a*", "> x", ">\n")
			lines := strings.Split(ind+open, "\n")
			n := rapid.IntRange(0, 3).Draw(t, "t6#")
			for i := 0; i < n; i++ {
				lines = append(lines, c35Pick(t, "t6line", "*a*", "  <td>", "x", "</"+tag+">", "<"+tag+">", "    code?", "# h", "- x", "> q", "```", "<!-- c -->", " ", "&amp;", "[a](b)"))
			}
			return lines
		default:
			open := c35Pick(t, "t7", "<a>", "</a>", "<a href=\"x\">", "<span class='y'>", "<b/>", "<del>", "</ins>", "<a  b=c >", "<x-y>", "<a> ", "<a>  ", "<a> b", "<a><b>", "<a href=\"x\nb\">", "</a b>", "<a b=>", "<i>*c*</i>", "<custom-tag a=\"1\" b='2' c=3 d>", "<pre-x>", "<prefix>", "<scripty>", "</pre>", "</script>", "</style>", "</textarea>", "<textareas>")
			lines := strings.Split(ind+open, "\n")
			n := rapid.IntRange(0, 2).Draw(t, "t7#")
			for i := 0; i < n; i++ {
				lines = append(lines, c35Pick(t, "t7line", "*a*", "x", "</a>", "- x", "# h", "    y", "> q"))
			}
			return lines
		}
	}
}

func c35Itoa(n int) string {
	if n == 0 {
		return "0"
	}
	var b []byte
	for n > 0 {
		b = append([]byte{byte('0' + n%10)}, b...)
		n /= 10
	}
	return string(b)
}

// c35Doc draws a grammar-generated document.
func c35Doc(t *rapid.T) string {
	s := strings.Join(c35Blocks(t, 0), "\n")
	switch c35Uniform(t, "eof", 10) {
	case 0:
	case 1:
		s += "\n\n"
	default:
		s += "\n"
	}
	return s
}

// ---- token soup -----------------------------------------------------------------

var c35SoupTokens = []string{
	"\n", "\n", "\n", "\n\n", " ", " ", "  ", "    ", "   ",
	">", "> ", "-", "- ", "+ ", "* ", "1. ", "2) ", "10. ", "1.", "-   ", "#", "# ", "## ", "###### ", "```", "~~~", "````", "***", "---", "___", "* * *", "===",
	"<div>", "</div>", "<pre>", "</pre>", "<!-- c -->", "<?x?>", "<a>", "</a>", "<b x=\"1\">", "<http://a.b>", "<a@b.c>", "<!X y>", "<![CDATA[", "]]>", "-->", "<!--", "<", ">",
	"[", "]", "(", ")", "![", "](", "](/u)", "](/u \"t\")", "](<a b>)", "[]", "()", "[a](b)", "![a](b)",
	"*", "**", "***", "_", "__", "`", "``", "\\", "\\\n", "  \n", "\\*", "\\[", "\\`",
	"&amp;", "&#35;", "&#x2A;", "&", "&lt;", "&NewLine;", "&nbsp;",
	"\n\u00a0\n", "\n\u3000\n", "\u00a0", "\n \u2003\n",
	"a", "b", "foo", "é", "世", "1", "!", "\"", "'", ":", ".", "=", "{", "}", "/", "|", "~", "^", "$", "%", "@", ",", ";", "?", "+",
}

func c35Soup(t *rapid.T) string {
	n := rapid.IntRange(1, 24).Draw(t, "soup#")
	var sb strings.Builder
	for i := 0; i < n; i++ {
		sb.WriteString(rapid.SampledFrom(c35SoupTokens).Draw(t, "tok"))
	}
	return sb.String()
}

// ---- mutation of seeds ------------------------------------------------------------

// c35Mutate applies 1..3 token-level edits to a seed document.
func c35Mutate(t *rapid.T, seed string, other string) string {
	s := seed
	n := rapid.IntRange(1, 3).Draw(t, "mut#")
	for i := 0; i < n; i++ {
		pos := 0
		if len(s) > 0 {
			pos = rapid.IntRange(0, len(s)).Draw(t, "pos")
			for pos < len(s) && pos > 0 && s[pos]&0xC0 == 0x80 {
				pos++ // keep to rune boundaries
			}
		}
		switch c35Uniform(t, "mut", 8) {
		case 0, 1, 2: // insert a token
			s = s[:pos] + rapid.SampledFrom(c35SoupTokens).Draw(t, "ins") + s[pos:]
		case 3: // delete a span
			end := pos + rapid.IntRange(1, 3).Draw(t, "dellen")
			for end < len(s) && s[end]&0xC0 == 0x80 {
				end++
			}
			if end > len(s) {
				end = len(s)
			}
			s = s[:pos] + s[end:]
		case 4: // duplicate a line
			lines := strings.Split(s, "\n")
			k := rapid.IntRange(0, len(lines)-1).Draw(t, "dupline")
			lines = append(lines[:k+1], lines[k:]...)
			s = strings.Join(lines, "\n")
		case 5: // put every line into a container
			prefix := c35Pick(t, "wrap", "> ", ">", "  ", "   ")
			first := prefix
			if c35Chance(t, "wraplist", 50) {
				first = c35Pick(t, "wrapm", "- ", "1. ", "* ", "+   ")
				prefix = strings.Repeat(" ", len(first))
			}
			lines := strings.Split(strings.TrimSuffix(s, "\n"), "\n")
			for k, l := range lines {
				switch {
				case k == 0:
					lines[k] = first + l
				case l == "":
				default:
					lines[k] = prefix + l
				}
			}
			s = strings.Join(lines, "\n") + "\n"
			if first != prefix {
				// a second item after a blank line makes the list loose
				s += "\n" + first + c35Pick(t, "wrapitem2", "b", "", "*c*", "    code") + "\n"
			}
		case 6: // splice with another seed
			if c35Chance(t, "spliceblank", 50) {
				s = s[:pos] + "\n\n" + other
			} else {
				s = s[:pos] + other
			}
		case 7: // swap two lines
			lines := strings.Split(s, "\n")
			a := rapid.IntRange(0, len(lines)-1).Draw(t, "swapa")
			b := rapid.IntRange(0, len(lines)-1).Draw(t, "swapb")
			lines[a], lines[b] = lines[b], lines[a]
			s = strings.Join(lines, "\n")
		}
	}
	return s
}
