package props

// C35/linktail: the part of an inline link after the link text,
// "(" destination title ")", decided by a reference parser written directly from
// CommonMark 0.31.2 section 6.3 (link destination, link title, inline link).
// This is the one area where the differential partner (goldmark 1.4.13) is
// known to deviate from the spec (unbalanced parentheses, "<" inside <...>,
// "\&"), so those documents are excluded from C35/commonmark and decided here.

import (
	"fmt"
	"regexp"
	"strconv"
	"strings"
	"time"
	"unicode/utf8"

	"pgregory.net/rapid"
	"src.elv.sh/pkg/md"
	"verif/vs"
)

type c35TailCase struct {
	Tail  vs.B `json:"tail"`            // the document is "[a]" + Tail
	Known bool `json:"known,omitempty"` // regression case of a finding: its own shape is not excluded
}

// c35TailModel parses a link tail per the spec. ok=false: "[a]" is not followed
// by a valid inline link tail.
func c35TailModel(s string) (ok bool, dest, title string) {
	pos := 0
	ws := func() int { // spaces and line endings (a paragraph has no blank line, so "up to one line ending" holds)
		n := 0
		for pos < len(s) && (s[pos] == ' ' || s[pos] == '\n') {
			pos++
			n++
		}
		return n
	}
	isPunct := func(b byte) bool { return strings.IndexByte(c35ASCIIPunct, b) >= 0 }
	if pos >= len(s) || s[pos] != '(' {
		return false, "", ""
	}
	pos++
	ws()
	var rawDest string
	hasDest := false
	if pos < len(s) && s[pos] == '<' {
		j := pos + 1
		closed := false
		for j < len(s) {
			c := s[j]
			if c == '\n' || c == '<' {
				break
			}
			if c == '\\' && j+1 < len(s) && isPunct(s[j+1]) {
				j += 2
				continue
			}
			if c == '>' {
				closed = true
				break
			}
			j++
		}
		if !closed {
			return false, "", "" // a destination may not start with "<" otherwise
		}
		rawDest, hasDest = s[pos+1:j], true
		pos = j + 1
	} else {
		j, depth := pos, 0
	bare:
		for j < len(s) {
			c := s[j]
			switch {
			case c <= 0x20 || c == 0x7f: // space and ASCII control characters end it
				break bare
			case c == '\\' && j+1 < len(s) && isPunct(s[j+1]):
				j += 2
				continue
			case c == '(':
				depth++
			case c == ')':
				if depth == 0 {
					break bare
				}
				depth--
			}
			j++
		}
		if depth != 0 {
			return false, "", ""
		}
		if j > pos {
			rawDest, hasDest = s[pos:j], true
		}
		pos = j
	}
	sep := ws()
	rawTitle := ""
	if hasDest && sep > 0 && pos < len(s) && (s[pos] == '"' || s[pos] == '\'' || s[pos] == '(') {
		open, close := s[pos], s[pos]
		if open == '(' {
			close = ')'
		}
		j := pos + 1
		closed := false
		for j < len(s) {
			c := s[j]
			if c == '\\' && j+1 < len(s) && isPunct(s[j+1]) {
				j += 2
				continue
			}
			if c == close {
				closed = true
				break
			}
			if c == open { // only possible for "(": an unescaped "(" is not allowed
				break
			}
			j++
		}
		if !closed {
			return false, "", ""
		}
		rawTitle = s[pos+1 : j]
		pos = j + 1
		ws()
	}
	if pos >= len(s) || s[pos] != ')' {
		return false, "", ""
	}
	return true, c35Unescape(rawDest), c35Unescape(rawTitle)
}

var c35RefRe = regexp.MustCompile(`^&(?:#[0-9]{1,7}|#[xX][0-9a-fA-F]{1,6}|lt|gt|amp|apos);`)

// c35Unescape resolves backslash escapes and (the supported) character references.
func c35Unescape(s string) string {
	var sb strings.Builder
	for i := 0; i < len(s); {
		c := s[i]
		if c == '\\' && i+1 < len(s) && strings.IndexByte(c35ASCIIPunct, s[i+1]) >= 0 {
			sb.WriteByte(s[i+1])
			i += 2
			continue
		}
		if c == '&' {
			if m := c35RefRe.FindString(s[i:]); m != "" {
				body := m[1 : len(m)-1]
				switch {
				case body == "lt":
					sb.WriteByte('<')
				case body == "gt":
					sb.WriteByte('>')
				case body == "amp":
					sb.WriteByte('&')
				case body == "apos":
					sb.WriteByte('\'')
				default:
					base, digits := 10, body[1:]
					if digits[0] == 'x' || digits[0] == 'X' {
						base, digits = 16, digits[1:]
					}
					n, _ := strconv.ParseInt(digits, base, 32)
					if n == 0 || n > utf8.MaxRune || (n >= 0xD800 && n <= 0xDFFF) {
						n = utf8.RuneError
					}
					sb.WriteRune(rune(n))
				}
				i += len(m)
				continue
			}
		}
		sb.WriteByte(c)
		i++
	}
	return sb.String()
}

var c35TailAtoms = []string{
	"(", ")", "(", ")", "<", ">", "\"", "'", " ", " ", "\n", "\\", "\\(", "\\)", "\\<", "\\>", "\\\"", "\\'", "\\\\", "\\&", "\\a",
	"&amp;", "&lt;", "&#40;", "&#x29;", "&#34;", "&#32;", "&", "&#;", "a", "b", "/u", "é", "%20", "%", "#", "?", "*", "_", "`", "[", "]", "!", "{", "|", "\x7f",
}

var c35TailOutRe = regexp.MustCompile(`^<p><a href="([^"]*)"(?: title="([^"]*)")?>a</a>`)

func c35GenTail(t *rapid.T) c35TailCase {
	var tail string
	switch k := c35Uniform(t, "k", 10); {
	case k < 5:
		tail = c35LinkTail(t, true)
	case k < 8:
		n := rapid.IntRange(0, 7).Draw(t, "n")
		tail = "("
		for i := 0; i < n; i++ {
			tail += rapid.SampledFrom(c35TailAtoms).Draw(t, "atom")
		}
		tail += c35Pick(t, "end", ")", ")", ")", "", "))")
	default:
		// a well-formed tail with one atom inserted or removed
		tail = c35LinkTail(t, true)
		pos := rapid.IntRange(0, len(tail)).Draw(t, "pos")
		for pos < len(tail) && pos > 0 && tail[pos]&0xC0 == 0x80 {
			pos++
		}
		tail = tail[:pos] + rapid.SampledFrom(c35TailAtoms).Draw(t, "ins") + tail[pos:]
	}
	return c35TailCase{Tail: vs.B(tail)}
}

// c35TailUsable reports why the document cannot be decided by the tail model
// ("" = usable): it must stay one paragraph, and must avoid the shapes of open
// findings that concern something else than the tail syntax.
func c35TailUsable(doc string, known bool) string {
	if !utf8.ValidString(doc) {
		return "invalid UTF-8"
	}
	var trace md.TraceCodec
	md.Render(doc, &trace)
	if ops := trace.Ops(); len(ops) != 1 || ops[0].Type != md.OpParagraph {
		return "tail breaks the paragraph"
	}
	if strings.Contains(doc, "\n ") && vs.KnownOpen("C35:continuation-indent-kept") {
		return "known finding C35:continuation-indent-kept"
	}
	if c35ZeroRefRe.MatchString(doc) && vs.KnownOpen("C35:numeric-reference-zero") {
		return "known finding C35:numeric-reference-zero"
	}
	if !known {
		if vs.KnownOpen("C35:link-title-without-separator") && c35TitleNoSepRe.MatchString(doc) {
			return "known finding C35:link-title-without-separator"
		}
		if vs.KnownOpen("C35:del-in-link-destination") && strings.Contains(doc, "\x7f") {
			return "known finding C35:del-in-link-destination"
		}
	}
	return ""
}

var c35ContIndentRe = regexp.MustCompile(`\n +`)

var c35TitleNoSepRe = regexp.MustCompile(`>["'(]`)

func c35CheckTail(c c35TailCase, known bool) error {
	tail := string(c.Tail)
	doc := "[a]" + tail
	if why := c35TailUsable(doc, known); why != "" {
		vs.Excluded(why)
		return nil
	}
	got := c35Elvish(doc)
	// leading spaces of paragraph continuation lines are not part of the
	// paragraph's content (such documents are only reached once
	// C35:continuation-indent-kept is repaired)
	ok, dest, title := c35TailModel(c35ContIndentRe.ReplaceAllString(tail, "\n"))
	m := c35TailOutRe.FindStringSubmatch(got)
	if !ok {
		if m != nil {
			return fmt.Errorf("CommonMark 6.3 does not accept this link tail, Elvish made a link\ninput:  %q\nelvish: %q", doc, got)
		}
		return nil
	}
	if m == nil {
		return fmt.Errorf("CommonMark 6.3 accepts this link tail (destination %q, title %q), Elvish made no link\ninput:  %q\nelvish: %q", dest, title, doc, got)
	}
	gotDest, gotTitle := c35CanonURL(m[1]), c35HTMLUnescape(m[2])
	if wantDest := c35CanonURL(strings.NewReplacer("&", "&amp;").Replace(dest)); gotDest != wantDest || gotTitle != title {
		return fmt.Errorf("link tail parsed differently from CommonMark 6.3: want destination %q title %q, got href=%q title=%q\ninput:  %q\nelvish: %q", dest, title, m[1], gotTitle, doc, got)
	}
	return nil
}

func init() {
	vs.Register(vs.Prop[c35TailCase]{
		Name:  "C35/linktail",
		Rule:  "documents \"[a]\" + tail where the tail is (50%) a structured ( destination title ) in every documented form incl. broken ones, (30%) a random string over the tail alphabet (parentheses, angle brackets, quotes, spaces, line ending, backslash escapes, character references, DEL), (20%) a structured tail with one atom inserted; oracle: a parser of link destination/title/inline link written from CommonMark 0.31.2 section 6.3; only documents that stay a single paragraph; non-trivial = the model accepts the tail or the tail has both parentheses",
		Gen:   c35GenTail,
		Check: func(c c35TailCase) error { return c35CheckTail(c, c.Known) },
		Class: func(c c35TailCase) (string, bool) {
			tail := string(c.Tail)
			if why := c35TailUsable("[a]"+tail, false); why != "" {
				if strings.HasPrefix(why, "known finding") {
					why = "known finding"
				}
				return "outside/" + why, false
			}
			ok, _, title := c35TailModel(c35ContIndentRe.ReplaceAllString(tail, "\n"))
			switch {
			case ok && title != "":
				return "link+title", true
			case ok:
				return "link", true
			}
			return "not-a-link", strings.Contains(tail, "(") && strings.Contains(tail, ")")
		},
		Quick: 12000, Thorough: 300000,
		Timeout: 30 * time.Second,
		Known: []vs.Known[c35TailCase]{
			{Key: "C35:link-title-without-separator", Case: c35TailCase{Tail: "(<b>\"t\")", Known: true}},
			{Key: "C35:del-in-link-destination", Case: c35TailCase{Tail: "(b\x7fc)", Known: true}},
		},
	})
}
