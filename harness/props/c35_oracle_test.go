package props

// C35 oracle side: the CommonMark reference (goldmark v1.4.13, CommonMark 0.30),
// the decision whether a document lies inside the documented supported subset,
// and the normaliser for insignificant serialisation differences.

import (
	"bytes"
	"fmt"
	"regexp"
	"sort"
	"strings"
	"sync"
	"unicode"
	"unicode/utf8"

	"github.com/yuin/goldmark"
	gmast "github.com/yuin/goldmark/ast"
	gmparser "github.com/yuin/goldmark/parser"
	gmhtml "github.com/yuin/goldmark/renderer/html"
	gmtext "github.com/yuin/goldmark/text"
	gmutil "github.com/yuin/goldmark/util"
	"src.elv.sh/pkg/md"
	"verif/vs"
)

var (
	c35gmOnce sync.Once
	c35gm     goldmark.Markdown
)

func c35Elvish(src string) string { return md.RenderString(src, &md.HTMLCodec{}) }

// c35Ref is what the reference implementation says about a document.
type c35Ref struct {
	HTML    string
	Outside string // documented omission seen in the reference parse ("" = none)
	Limit   string // the reference itself is unusable here ("" = usable)
	// Unindented is the document with the leading spaces of every paragraph
	// continuation line removed ("" if there are none). CommonMark strips them
	// before inline parsing, so it must render like the document itself.
	Unindented string
}

// c35Reference renders src with goldmark and inspects the reference parse.
func c35Reference(src string) (r c35Ref) {
	defer func() {
		// goldmark 1.4.13 can panic in its renderer (an internal node kind
		// without a render function is left in the tree, e.g. for
		// "***&lt;---  \n  ---[* * *<!-- c -->[]](/u)..."); no reference then.
		if p := recover(); p != nil {
			r = c35Ref{Limit: "reference implementation panicked"}
		}
	}()
	return c35ReferenceUnsafe(src)
}

func c35ReferenceUnsafe(src string) c35Ref {
	c35gmOnce.Do(func() {
		c35gm = goldmark.New(goldmark.WithRendererOptions(gmhtml.WithUnsafe(), gmhtml.WithXHTML()))
	})
	if !strings.HasSuffix(src, "\n") {
		// A line ends at a line ending or at the end of the file, so this does
		// not change the document; goldmark drops the last line ending of a
		// code or HTML block that ends at EOF without one.
		src += "\n"
	}
	b := []byte(src)
	var r c35Ref
	ctx := gmparser.NewContext()
	doc := c35gm.Parser().Parse(gmtext.NewReader(b), gmparser.WithContext(ctx))
	if len(ctx.References()) > 0 {
		r.Outside = "reference link definitions"
	}
	var indented []int // starts of paragraph continuation lines that had leading spaces
	isBlank := func(seg gmtext.Segment) bool { return strings.Trim(string(seg.Value(b)), " \n") == "" }
	gmast.Walk(doc, func(n gmast.Node, entering bool) (gmast.WalkStatus, error) {
		if !entering {
			return gmast.WalkContinue, nil
		}
		switch n := n.(type) {
		case *gmast.List:
			if n.IsTight && r.Outside == "" {
				r.Outside = "tight list"
			}
		case *gmast.ListItem:
			// goldmark bug: "- a\n\n  1)\n\n  2) b": an empty item nested in
			// another item and followed by a blank line closes the outer item too.
			if n.ChildCount() == 0 && c35HasAncestor(n, gmast.KindListItem) && c35EmptyNestedItemRe.MatchString(src) {
				r.Limit = "empty nested item followed by a blank line (reference closes the outer item)"
			}
		case *gmast.Heading:
			if n.Lines().Len() > 0 && r.Outside == "" {
				p := n.Lines().At(0).Start
				for p > 0 && (b[p-1] == ' ' || b[p-1] == '\t') {
					p--
				}
				if p == 0 || b[p-1] != '#' {
					r.Outside = "setext heading"
				}
			}
		case *gmast.Paragraph:
			for i := 1; i < n.Lines().Len(); i++ {
				if st := n.Lines().At(i).Start; st > 0 && b[st-1] == ' ' {
					indented = append(indented, st)
				}
			}
		case *gmast.HTMLBlock:
			if n.HTMLBlockType <= gmast.HTMLBlockType5 && n.HasClosure() && n.Lines().Len() > 0 && n.ClosureLine.Start != n.Lines().At(0).Start && (c35HasAncestor(n, gmast.KindBlockquote) || c35HasAncestor(n, gmast.KindListItem)) {
				// goldmark bug: after an HTML block that is closed on a later
				// line inside a container, the next line is parsed as if the
				// container marker had not been consumed ("> <?x\n> ?>\n> # a"
				// gives a nested quote, "> <?x\n> ?>\na" keeps "a" inside the
				// quote; in a list item the indentation of the next line is
				// counted from column 0).
				r.Limit = "multi-line closed HTML block inside a container (reference bug)"
			}
			c35PartialBlank(n, b, &r)
			// An HTML block of kind 1-5 that is still open at the end of its
			// container: the spec does not say whether trailing blank lines
			// belong to it (commonmark.js drops them, goldmark keeps them);
			// drop them from the reference rendering.
			if n.HTMLBlockType <= gmast.HTMLBlockType5 && !n.HasClosure() {
				lines := n.Lines()
				k := lines.Len()
				for k > 1 && isBlank(lines.At(k-1)) {
					k--
				}
				if k < lines.Len() {
					lines.SetSliced(0, k)
				}
			}
		case *gmast.FencedCodeBlock:
			// goldmark keeps a line of 1-2 spaces inside a fenced block whose
			// fence is indented instead of removing the indentation
			// (util.IndentPositionPadding fails on it); the fence indentation is
			// not recorded in the AST, so leave out every such block.
			c35PartialBlank(n, b, &r)
			for i := 0; i < n.Lines().Len(); i++ {
				seg := n.Lines().At(i)
				if v := string(seg.Value(b)); v == " \n" || v == "  \n" {
					r.Limit = "fenced code with a line of 1-2 spaces (reference mishandles fence indentation)"
				}
			}
		case *gmast.CodeBlock:
			c35PartialBlank(n, b, &r)
		case *gmast.Link:
			c35DestLimit(n.Destination, &r)
			c35NestedLinkLimit(n, b, &r)
		case *gmast.Image:
			c35DestLimit(n.Destination, &r)
			c35NestedLinkLimit(n, b, &r)
			// goldmark takes the raw source of the description as alt text
			// (entities and backslash escapes not resolved, line breaks
			// dropped), and the spec leaves raw HTML inside a description open.
			gmast.Walk(n, func(d gmast.Node, entering bool) (gmast.WalkStatus, error) {
				if !entering || d == gmast.Node(n) {
					return gmast.WalkContinue, nil
				}
				if t, ok := d.(*gmast.Text); ok && bytes.Contains(t.Segment.Value(b), []byte("\n")) {
					r.Limit = "image description with entity, escape or line break (reference keeps the source text)"
				}
				switch d := d.(type) {
				case *gmast.RawHTML:
					r.Limit = "image description with raw HTML (alt text unspecified)"
				case *gmast.AutoLink:
					r.Limit = "image description with an autolink (reference drops its text)"
				case *gmast.CodeSpan:
					if d.ChildCount() > 1 {
						r.Limit = "image description with entity, escape or line break (reference keeps the source text)"
					}
				case *gmast.Text:
					if d.SoftLineBreak() || d.HardLineBreak() || bytes.ContainsAny(d.Segment.Value(b), "&\\") {
						r.Limit = "image description with entity, escape or line break (reference keeps the source text)"
					}
				}
				return gmast.WalkContinue, nil
			})
		}
		return gmast.WalkContinue, nil
	})
	var buf bytes.Buffer
	if err := c35gm.Renderer().Render(&buf, b, doc); err != nil {
		panic(err)
	}
	r.HTML = buf.String()
	if strings.Contains(r.HTML, "<em></em>") || strings.Contains(r.HTML, "<strong></strong>") {
		// emphasis is never empty in CommonMark; seen with nested images
		// whose outer brackets goldmark fails to match
		r.Limit = "reference produced empty emphasis (reference bug)"
	}
	if len(indented) > 0 {
		// the same document with the indentation of paragraph continuation
		// lines removed (CommonMark strips it before inline parsing)
		sort.Ints(indented)
		var sb strings.Builder
		prev := 0
		for _, st := range indented {
			sp := st
			for sp > prev && b[sp-1] == ' ' {
				sp--
			}
			sb.Write(b[prev:sp])
			prev = st
		}
		sb.Write(b[prev:])
		r.Unindented = sb.String()
	}
	return r
}

func c35HasAncestor(n gmast.Node, kind gmast.NodeKind) bool {
	for p := n.Parent(); p != nil; p = p.Parent() {
		if p.Kind() == kind {
			return true
		}
	}
	return false
}

var c35WhiteLineRe = regexp.MustCompile(`(?m)^[ >]* [ >]*$`)

// c35PartialBlank: a code or HTML block inside a list item that contains a line
// of only spaces. How much of such a line belongs to the item's indentation
// is not specified (cmark removes the item indentation if the line has that
// many spaces and everything otherwise; commonmark.js and goldmark remove
// everything; Elvish removes the indentation only if it is complete).
func c35PartialBlank(n gmast.Node, b []byte, r *c35Ref) {
	if n.Lines().Len() == 0 || !c35HasAncestor(n, gmast.KindListItem) {
		return
	}
	from := n.Lines().At(0).Start
	for from > 0 && b[from-1] != '\n' {
		from--
	}
	to := n.Lines().At(n.Lines().Len() - 1).Stop
	if hb, ok := n.(*gmast.HTMLBlock); ok && hb.HasClosure() && hb.ClosureLine.Stop > to {
		to = hb.ClosureLine.Stop
	}
	if c35WhiteLineRe.Match(b[from:to]) {
		r.Limit = "line of spaces inside a code/HTML block in a list item (indentation removal unspecified)"
	}
}

// c35NestedLinkLimit: goldmark bug: a link or image inside the text of another
// link or image ("*x ![[a](b)](/u)*", "***[![a](b)](/u) b***") makes the
// emphasis delimiters around the outer one literal.
func c35NestedLinkLimit(n gmast.Node, b []byte, r *c35Ref) {
	if !bytes.ContainsAny(b, "*_") {
		return
	}
	gmast.Walk(n, func(d gmast.Node, entering bool) (gmast.WalkStatus, error) {
		if entering && d != n && (d.Kind() == gmast.KindLink || d.Kind() == gmast.KindImage) {
			r.Limit = "link or image nested in a link or image together with emphasis (reference bug)"
		}
		// likewise "[*a [x] b*](/u)": emphasis spanning a literal bracket pair
		// inside a link text is left unprocessed
		if t, ok := d.(*gmast.Text); ok && entering && bytes.ContainsAny(t.Segment.Value(b), "[]") {
			r.Limit = "literal bracket inside a link text together with emphasis (reference bug)"
		}
		return gmast.WalkContinue, nil
	})
}

// c35DestLimit: goldmark accepts a bare link destination with unbalanced
// parentheses and a <...> destination containing "<"; CommonMark accepts neither.
func c35DestLimit(dest []byte, r *c35Ref) {
	if bytes.Contains(dest, []byte("\\&")) {
		// "[a](\\&amp;)": goldmark resolves the character reference although
		// its "&" is backslash-escaped
		r.Limit = "backslash-escaped & in a link destination (reference bug)"
	}
	depth := 0
	for i := 0; i < len(dest); i++ {
		switch dest[i] {
		case '\\':
			if i+1 < len(dest) && strings.IndexByte(c35ASCIIPunct, dest[i+1]) >= 0 {
				i++
			}
		case '(':
			depth++
		case ')':
			depth--
		case '<':
			r.Limit = "link destination containing '<' (reference accepts it inside <...>)"
		}
	}
	if depth != 0 {
		r.Limit = "link destination with unbalanced parentheses accepted by the reference"
	}
}

var (
	c35EntityRe      = regexp.MustCompile(`&([a-zA-Z0-9]+);`)
	c35HeadingAttrRe = regexp.MustCompile(`(?m)#.* \{[^}\n]+\}[ \t]*(#+[ \t]*)?$`)
	// named entities the package documents (or implements for FmtCodec) and that
	// are real HTML5 entities with the same meaning
	c35Entities = map[string]bool{"lt": true, "gt": true, "amp": true, "apos": true, "Tab": true, "NewLine": true, "nbsp": true}
	// 0.30 (goldmark) vs 0.31.2 (Elvish) differences in the HTML grammar
	// (search/source in the block tag list; </textarea> excluded from HTML block
	// start condition 7 only since 0.31)
	c35TagDiffRe = regexp.MustCompile(`(?i)</?(search|source)|</textarea`)
)

// c35Outside decides on the text alone whether src uses one of the documented
// omissions, an Elvish extension, or a construct on which CommonMark 0.30 (the
// reference) and 0.31.2 (Elvish's target) differ. "" = inside.
func c35Outside(src string) string {
	if !utf8.ValidString(src) {
		return "invalid UTF-8"
	}
	if strings.ContainsRune(src, '\t') {
		return "tab"
	}
	if strings.ContainsRune(src, '\r') {
		return "carriage return"
	}
	if strings.ContainsRune(src, 0) {
		return "NUL"
	}
	for _, m := range c35EntityRe.FindAllStringSubmatch(src, -1) {
		if c35Entities[m[1]] {
			continue
		}
		if _, ok := gmutil.LookUpHTML5EntityByName(m[1]); ok {
			return "named entity outside the supported set"
		}
	}
	if c35HeadingAttrRe.MatchString(src) {
		return "heading attribute extension"
	}
	if strings.ContainsAny(src, "*_") {
		for _, r := range src {
			if r >= 0x80 && unicode.IsSymbol(r) {
				return "0.30/0.31 difference: non-ASCII symbol with emphasis"
			}
		}
	}
	if c35TagDiffRe.MatchString(src) {
		return "0.30/0.31 difference: search/source/textarea tag"
	}
	if !c35DeclOK(src) {
		return "0.30/0.31 difference: HTML declaration"
	}
	if !c35CommentsOK(src) {
		return "0.30/0.31 difference: HTML comment"
	}
	return ""
}

var c35DeclRe = regexp.MustCompile(`<![A-Za-z]`)

// c35DeclOK: declarations must be <!UPPERCASE+ white space ...> so that both
// spec versions agree on them.
func c35DeclOK(src string) bool {
	for _, loc := range c35DeclRe.FindAllStringIndex(src, -1) {
		rest := src[loc[0]+2:]
		i := 0
		for i < len(rest) && rest[i] >= 'A' && rest[i] <= 'Z' {
			i++
		}
		if i == 0 || i >= len(rest) || (rest[i] != ' ' && rest[i] != '\n') {
			return false
		}
	}
	return true
}

// c35CommentsOK: every "<!--" must open a comment that is valid in both spec
// versions: text not starting with ">" or "->", containing no "--", not ending
// in "-".
func c35CommentsOK(src string) bool {
	if strings.Contains(src, "<!-->") || strings.Contains(src, "<!--->") {
		return false
	}
	for i := 0; ; {
		j := strings.Index(src[i:], "<!--")
		if j < 0 {
			return true
		}
		start := i + j + 4
		k := strings.Index(src[start:], "-->")
		if k < 0 {
			return false
		}
		body := src[start : start+k]
		if strings.HasPrefix(body, ">") || strings.HasPrefix(body, "->") || strings.Contains(body, "--") || strings.HasSuffix(body, "-") {
			return false
		}
		i = start + k + 3
	}
}

// c35KnownShape recognises the exact shapes of the open findings of C35 so the
// search continues behind them ("" = none).
func c35KnownShape(src string, ref *c35Ref) string {
	if vs.KnownOpen("C35:numeric-reference-zero") && c35ZeroRefRe.MatchString(src) {
		return "known finding C35:numeric-reference-zero"
	}
	if vs.KnownOpen("C35:quote-entity") && strings.Contains(src, "&quote;") {
		return "known finding C35:quote-entity"
	}
	if vs.KnownOpen("C35:html-block-closing-pre-tag") && c35ClosingPreRe.MatchString(src) {
		return "known finding C35:html-block-closing-pre-tag"
	}
	if vs.KnownOpen("C35:empty-item-with-space-interrupts-paragraph") && c35EmptyItemRe.MatchString(src) {
		return "known finding C35:empty-item-with-space-interrupts-paragraph"
	}
	if ref != nil && ref.Unindented != "" && vs.KnownOpen("C35:continuation-indent-kept") &&
		c35Normalise(c35Elvish(src)) != c35Normalise(ref.HTML) {
		// The document has an indented paragraph continuation line and the only
		// difference is that indentation, which Elvish keeps inside a code
		// span, raw HTML tag or link title spanning the line break: either
		// removing it from the input removes the difference, or the outputs
		// differ in nothing but the number of spaces.
		noSpace := func(s string) string {
			return strings.ReplaceAll(strings.ReplaceAll(c35Normalise(s), " ", ""), "%20", "")
		}
		if c35Normalise(c35Elvish(ref.Unindented)) == c35Normalise(ref.HTML) ||
			noSpace(c35Elvish(src)) == noSpace(ref.HTML) {
			return "known finding C35:continuation-indent-kept"
		}
	}
	if vs.KnownOpen("C35:email-autolink-after-slash-or-question") && c35EmailSlashRe.MatchString(src) {
		return "known finding C35:email-autolink-after-slash-or-question"
	}
	if vs.KnownOpen("C35:list-start-after-quote-marker-interrupting-paragraph") && c35QuoteItemRe.MatchString(src) {
		return "known finding C35:list-start-after-quote-marker-interrupting-paragraph"
	}
	if vs.KnownOpen("C35:html-block-1-prefix-match") && c35PrePrefixRe.MatchString(src) {
		return "known finding C35:html-block-1-prefix-match"
	}
	return ""
}

var (
	c35ZeroRefRe = regexp.MustCompile(`&#(0{1,7}|[xX]0{1,6});`)
	// a line that consists of a closing pre/script/style/textarea tag (after
	// container markers)
	c35ClosingPreRe = regexp.MustCompile(`(?im)^[ >*+\-0-9.)]*</(pre|script|style|textarea)[ ]*>[ ]*$`)
	// <pre, <script, <style, <textarea not followed by space, ">" or end of line,
	// and their closing tags not followed by ">"
	c35PrePrefixRe = regexp.MustCompile(`(?i)<(pre|script|style|textarea)[^ >\n]|</(pre|script|style|textarea)([^>]|$)`)
	// an autolink containing a character reference
	c35AutolinkEntityRe   = regexp.MustCompile(`<[a-zA-Z][a-zA-Z0-9+.-]{1,31}:[^<> \n]*&[a-zA-Z0-9#]+;[^<> \n]*>`)
	c35EmptyItemBreakRe   = regexp.MustCompile(`(?m)^[ >]*([-+*]|[0-9]{1,9}[.)])[ ]*\n[ >]*([-*_] +){2,}[-*_] *$`)
	c35EmptyItemItemRe    = regexp.MustCompile(`(?m)^[ >]*(([-+*]|[0-9]{1,9}[.)]) +)*([-+*]|[0-9]{1,9}[.)])[ ]*\n[ >]*([-+*]|[0-9]{1,9}[.)])( |$)`)
	c35TagCloseNextLineRe = regexp.MustCompile(`<[A-Za-z][^<>\n]*(\n[^<>\n]*)*\n[ >]*/?>|(?m)^[ >]*/>|<[A-Za-z][^\n]*(\n[^\n]+)*\n[ >]* {4,}>`)
	c35TitleNoSepDocRe    = regexp.MustCompile(`\]\([ \n>]*<(?:\\.|[^<>\n\\])*>["'(]`)
	c35BackslashSpacesRe  = regexp.MustCompile(`\\ +\n`)
	c35QuoteDelimRe       = regexp.MustCompile(`(?m)^[ >0-9.)+*-]*>[*_]`)
	c35CloseTagSpaceRe    = regexp.MustCompile(`</ +[a-zA-Z]|</[a-zA-Z][a-zA-Z0-9-]*[ ]*/>`)
	c35NestedBracketRe    = regexp.MustCompile(`!\[(?:[^\]\\]|\\.)*\[|\[(?:[^\]\\]|\\.)*!\[`)
	// email autolink whose local part starts with "/" or "?"
	c35EmailSlashRe = regexp.MustCompile("<[/?][a-zA-Z0-9.!#$%&'*+/=?^_`{|}~-]*@")
	// a line with text followed by a line that opens a block quote whose first
	// block is an ordered item not numbered 1 or an empty item
	c35QuoteItemRe       = regexp.MustCompile(`(?m)^[^\n]*[^ >\n][^\n]*\n[ ]*>[ >]*([0-9]{1,9}[.)]|[-+*] *$)`)
	c35EmptyNestedItemRe = regexp.MustCompile(`(?m)^[ >]*([-+*]|[0-9]{1,9}[.)])[ ]*\n[ >]*$`)
	// a non-blank line followed by a line that is a list marker plus spaces only
	c35EmptyItemRe = regexp.MustCompile(`(?m)^[^\n]*[^ \n][^\n]*\n[ >]*([-+*]|[0-9]{1,9}[.)]) +$`)
	// a code fence whose info string has a character reference for white space
	c35InfoSpaceRe = regexp.MustCompile("(?m)^[ >*+\\-0-9.)]*(```|~~~).*&(#32|#x20|#X20|#9|#10|#xA|#xa|#160|Tab|NewLine|nbsp);")
)

// c35OracleLimit recognises documents on which the CommonMark text is silent
// and the implementations legitimately differ; the reference is unusable there.
func c35OracleLimit(src string) string {
	// "The first word of the info string is typically used to specify the
	// language": whether a white-space character reference separates words or
	// is trimmed is not specified (commonmark.js, goldmark and Elvish all differ).
	if c35InfoSpaceRe.MatchString(src) {
		return "info string with white-space character reference (unspecified)"
	}
	// goldmark bug: "-\n  - - -" (a thematic break with inner spaces as the
	// first block of an item whose marker line is otherwise empty) ends the list.
	if c35EmptyItemBreakRe.MatchString(src) {
		return "spaced thematic break directly after an empty item marker (reference bug)"
	}
	// goldmark bug: "-\n  - a" and "4.\n   7." (a list item as the first block
	// of an item whose marker line is otherwise empty) become siblings.
	if c35EmptyItemItemRe.MatchString(src) {
		return "list item directly after an empty item marker (reference bug)"
	}
	// goldmark bug: "x <a\n>" / "x <a b\n  />": an open tag whose ">" comes
	// first on the next line is not recognised.
	if c35TagCloseNextLineRe.MatchString(src) {
		return "HTML tag closed at the start of the next line (reference bug)"
	}
	// goldmark bug: after a line ending in a backslash and spaces ("a\\  \n\\*b*")
	// the backslash escapes at the start of the next line are not processed.
	if c35BackslashSpacesRe.MatchString(src) {
		return "line ending in backslash and spaces (reference bug)"
	}
	// goldmark bug: an emphasis delimiter directly after a ">" marker sees the
	// ">" as its preceding character instead of the start of the line
	// (">*a\n>***b" closes the emphasis at "***").
	if c35QuoteDelimRe.MatchString(src) {
		return "emphasis delimiter directly after a > marker (reference bug)"
	}
	// goldmark bug: "</   div>" and "</ins/>" start an HTML block although
	// neither is a closing tag (no space is allowed after "</", no "/" before ">").
	if c35CloseTagSpaceRe.MatchString(src) {
		return "malformed closing tag accepted by the reference as an HTML block start (reference bug)"
	}
	// goldmark bug: with an image nested in another image or link, or a link
	// nested in an image, brackets are paired differently and the emphasis
	// delimiters around them are lost ("*x ![[a](b)](/u)*"); seen only
	// together with emphasis characters.
	if strings.ContainsAny(src, "*_") && c35NestedBracketRe.MatchString(src) {
		return "image opener nested in brackets together with emphasis (reference bug)"
	}
	// goldmark bug: "a\\\\\\\nb" (escaped backslash followed by a backslash hard
	// break) gives two literal backslashes and a soft break.
	if strings.Contains(src, "\\\\\\\n") {
		return "three backslashes before a line ending (reference bug)"
	}
	// goldmark (like Elvish, see C35:link-title-without-separator and
	// C35:del-in-link-destination, which C35/linktail decides against the spec
	// text) accepts a title directly after a <destination> and DEL inside a
	// destination; CommonMark does not, so the reference is unusable there.
	if c35TitleNoSepDocRe.MatchString(src) {
		return "link title not separated from <destination> (reference accepts it)"
	}
	if strings.Contains(src, "\x7f") {
		return "DEL character (reference accepts it in a link destination)"
	}
	// Character references inside an autolink: cmark resolves them,
	// commonmark.js and goldmark do not (commonmark.js issue 263).
	if c35AutolinkEntityRe.MatchString(src) {
		return "character reference inside an autolink (implementations differ)"
	}
	return ""
}

// ---- normaliser ---------------------------------------------------------------

var c35EmptyTitleRe = regexp.MustCompile(` ?title=""`)

var c35URLAttrRe = regexp.MustCompile(`(<a href|<img src)="([^"<]*)"`)

var c35HTMLUnescape = strings.NewReplacer("&amp;", "&", "&quot;", `"`, "&lt;", "<", "&gt;", ">").Replace

func c35IsHex(b byte) bool {
	return '0' <= b && b <= '9' || 'a' <= b && b <= 'f' || 'A' <= b && b <= 'F'
}

func c35Unhex(b byte) byte {
	switch {
	case b <= '9':
		return b - '0'
	case b >= 'a':
		return b - 'a' + 10
	}
	return b - 'A' + 10
}

// c35CanonURL brings a URL attribute value to a canonical form that does not
// depend on which characters an implementation chose to percent-encode.
func c35CanonURL(v string) string {
	v = c35HTMLUnescape(v)
	for round := 0; round < 4; round++ {
		var sb strings.Builder
		changed := false
		for i := 0; i < len(v); i++ {
			if v[i] == '%' && i+2 < len(v) && c35IsHex(v[i+1]) && c35IsHex(v[i+2]) {
				sb.WriteByte(c35Unhex(v[i+1])<<4 | c35Unhex(v[i+2]))
				i += 2
				changed = true
			} else {
				sb.WriteByte(v[i])
			}
		}
		v = sb.String()
		if !changed {
			break
		}
	}
	var sb strings.Builder
	for i := 0; i < len(v); i++ {
		b := v[i]
		if 'a' <= b && b <= 'z' || 'A' <= b && b <= 'Z' || '0' <= b && b <= '9' {
			sb.WriteByte(b)
		} else {
			fmt.Fprintf(&sb, "%%%02X", b)
		}
	}
	return sb.String()
}

// c35Normalise removes the insignificant serialisation differences between the
// two renderers: line breaks directly inside <li>, and the choice of which URL
// characters are percent-encoded.
func c35Normalise(html string) string {
	html = strings.ReplaceAll(html, "<li>\n", "<li>")
	html = strings.ReplaceAll(html, "\n</li>", "</li>")
	html = c35EmptyTitleRe.ReplaceAllString(html, "") // an empty title may be omitted
	html = c35URLAttrRe.ReplaceAllStringFunc(html, func(m string) string {
		sub := c35URLAttrRe.FindStringSubmatch(m)
		return sub[1] + `="` + c35CanonURL(sub[2]) + `"`
	})
	return html
}
