package props

// Generated from /repo/pkg/md/spec/spec.json (CommonMark 0.31.2 examples): the
// Markdown sources only, used as mutation seeds by C35 and C36.

var c35SpecExamples = []string{
	"\tfoo\tbaz\t\tbim\n",          // 1 Tabs
	"  \tfoo\tbaz\t\tbim\n",        // 2 Tabs
	"    a\ta\n    \u1f50\ta\n",    // 3 Tabs
	"  - foo\n\n\tbar\n",           // 4 Tabs
	"- foo\n\n\t\tbar\n",           // 5 Tabs
	">\t\tfoo\n",                   // 6 Tabs
	"-\t\tfoo\n",                   // 7 Tabs
	"    foo\n\tbar\n",             // 8 Tabs
	" - foo\n   - bar\n\t - baz\n", // 9 Tabs
	"#\tFoo\n",                     // 10 Tabs
	"*\t*\t*\t\n",                  // 11 Tabs
	"\\!\\\"\\#\\$\\%\\&\\'\\(\\)\\*\\+\\,\\-\\.\\/\\:\\;\\<\\=\\>\\?\\@\\[\\\\\\]\\^\\_\\`\\{\\|\\}\\~\n", // 12 Backslash escapes
	"\\\t\\A\\a\\ \\3\\\u03c6\\\u00ab\n", // 13 Backslash escapes
	"\\*not emphasized*\n\\<br/> not a tag\n\\[not a link](/foo)\n\\`not code`\n1\\. not a list\n\\* not a list\n\\# not a heading\n\\[foo]: /url \"not a reference\"\n\\&ouml; not a character entity\n", // 14 Backslash escapes
	"\\\\*emphasis*\n",                       // 15 Backslash escapes
	"foo\\\nbar\n",                           // 16 Backslash escapes
	"`` \\[\\` ``\n",                         // 17 Backslash escapes
	"    \\[\\]\n",                           // 18 Backslash escapes
	"~~~\n\\[\\]\n~~~\n",                     // 19 Backslash escapes
	"<https://example.com?find=\\*>\n",       // 20 Backslash escapes
	"<a href=\"/bar\\/)\">\n",                // 21 Backslash escapes
	"[foo](/bar\\* \"ti\\*tle\")\n",          // 22 Backslash escapes
	"[foo]\n\n[foo]: /bar\\* \"ti\\*tle\"\n", // 23 Backslash escapes
	"``` foo\\+bar\nfoo\n```\n",              // 24 Backslash escapes
	"&nbsp; &amp; &copy; &AElig; &Dcaron;\n&frac34; &HilbertSpace; &DifferentialD;\n&ClockwiseContourIntegral; &ngE;\n", // 25 Entity and numeric character references
	"&#35; &#1234; &#992; &#0;\n", // 26 Entity and numeric character references
	"&#X22; &#XD06; &#xcab;\n",    // 27 Entity and numeric character references
	"&nbsp &x; &#; &#x;\n&#87654321;\n&#abcdef0;\n&ThisIsNotDefined; &hi?;\n", // 28 Entity and numeric character references
	"&copy\n",                                            // 29 Entity and numeric character references
	"&MadeUpEntity;\n",                                   // 30 Entity and numeric character references
	"<a href=\"&ouml;&ouml;.html\">\n",                   // 31 Entity and numeric character references
	"[foo](/f&ouml;&ouml; \"f&ouml;&ouml;\")\n",          // 32 Entity and numeric character references
	"[foo]\n\n[foo]: /f&ouml;&ouml; \"f&ouml;&ouml;\"\n", // 33 Entity and numeric character references
	"``` f&ouml;&ouml;\nfoo\n```\n",                      // 34 Entity and numeric character references
	"`f&ouml;&ouml;`\n",                                  // 35 Entity and numeric character references
	"    f&ouml;f&ouml;\n",                               // 36 Entity and numeric character references
	"&#42;foo&#42;\n*foo*\n",                             // 37 Entity and numeric character references
	"&#42; foo\n\n* foo\n",                               // 38 Entity and numeric character references
	"foo&#10;&#10;bar\n",                                 // 39 Entity and numeric character references
	"&#9;foo\n",                                          // 40 Entity and numeric character references
	"[a](url &quot;tit&quot;)\n",                         // 41 Entity and numeric character references
	"- `one\n- two`\n",                                   // 42 Precedence
	"***\n---\n___\n",                                    // 43 Thematic breaks
	"+++\n",                                              // 44 Thematic breaks
	"===\n",                                              // 45 Thematic breaks
	"--\n**\n__\n",                                       // 46 Thematic breaks
	" ***\n  ***\n   ***\n",                              // 47 Thematic breaks
	"    ***\n",                                          // 48 Thematic breaks
	"Foo\n    ***\n",                                     // 49 Thematic breaks
	"_____________________________________\n",            // 50 Thematic breaks
	" - - -\n",                                           // 51 Thematic breaks
	" **  * ** * ** * **\n",                              // 52 Thematic breaks
	"-     -      -      -\n",                            // 53 Thematic breaks
	"- - - -    \n",                                      // 54 Thematic breaks
	"_ _ _ _ a\n\na------\n\n---a---\n",                  // 55 Thematic breaks
	" *-*\n",                                             // 56 Thematic breaks
	"- foo\n***\n- bar\n",                                // 57 Thematic breaks
	"Foo\n***\nbar\n",                                    // 58 Thematic breaks
	"Foo\n---\nbar\n",                                    // 59 Thematic breaks
	"* Foo\n* * *\n* Bar\n",                              // 60 Thematic breaks
	"- Foo\n- * * *\n",                                   // 61 Thematic breaks
	"# foo\n## foo\n### foo\n#### foo\n##### foo\n###### foo\n", // 62 ATX headings
	"####### foo\n",           // 63 ATX headings
	"#5 bolt\n\n#hashtag\n",   // 64 ATX headings
	"\\## foo\n",              // 65 ATX headings
	"# foo *bar* \\*baz\\*\n", // 66 ATX headings
	"#                  foo                     \n",            // 67 ATX headings
	" ### foo\n  ## foo\n   # foo\n",                           // 68 ATX headings
	"    # foo\n",                                              // 69 ATX headings
	"foo\n    # bar\n",                                         // 70 ATX headings
	"## foo ##\n  ###   bar    ###\n",                          // 71 ATX headings
	"# foo ##################################\n##### foo ##\n", // 72 ATX headings
	"### foo ###     \n",                                       // 73 ATX headings
	"### foo ### b\n",                                          // 74 ATX headings
	"# foo#\n",                                                 // 75 ATX headings
	"### foo \\###\n## foo #\\##\n# foo \\#\n",                 // 76 ATX headings
	"****\n## foo\n****\n",                                     // 77 ATX headings
	"Foo bar\n# baz\nBar foo\n",                                // 78 ATX headings
	"## \n#\n### ###\n",                                        // 79 ATX headings
	"Foo *bar*\n=========\n\nFoo *bar*\n---------\n",           // 80 Setext headings
	"Foo *bar\nbaz*\n====\n",                                   // 81 Setext headings
	"  Foo *bar\nbaz*\t\n====\n",                               // 82 Setext headings
	"Foo\n-------------------------\n\nFoo\n=\n",               // 83 Setext headings
	"   Foo\n---\n\n  Foo\n-----\n\n  Foo\n  ===\n",            // 84 Setext headings
	"    Foo\n    ---\n\n    Foo\n---\n",                       // 85 Setext headings
	"Foo\n   ----      \n",                                     // 86 Setext headings
	"Foo\n    ---\n",                                           // 87 Setext headings
	"Foo\n= =\n\nFoo\n--- -\n",                                 // 88 Setext headings
	"Foo  \n-----\n",                                           // 89 Setext headings
	"Foo\\\n----\n",                                            // 90 Setext headings
	"`Foo\n----\n`\n\n<a title=\"a lot\n---\nof dashes\"/>\n",  // 91 Setext headings
	"> Foo\n---\n",                                             // 92 Setext headings
	"> foo\nbar\n===\n",                                        // 93 Setext headings
	"- Foo\n---\n",                                             // 94 Setext headings
	"Foo\nBar\n---\n",                                          // 95 Setext headings
	"---\nFoo\n---\nBar\n---\nBaz\n",                           // 96 Setext headings
	"\n====\n",                                                 // 97 Setext headings
	"---\n---\n",                                               // 98 Setext headings
	"- foo\n-----\n",                                           // 99 Setext headings
	"    foo\n---\n",                                           // 100 Setext headings
	"> foo\n-----\n",                                           // 101 Setext headings
	"\\> foo\n------\n",                                        // 102 Setext headings
	"Foo\n\nbar\n---\nbaz\n",                                   // 103 Setext headings
	"Foo\nbar\n\n---\n\nbaz\n",                                 // 104 Setext headings
	"Foo\nbar\n* * *\nbaz\n",                                   // 105 Setext headings
	"Foo\nbar\n\\---\nbaz\n",                                   // 106 Setext headings
	"    a simple\n      indented code block\n",                // 107 Indented code blocks
	"  - foo\n\n    bar\n",                                     // 108 Indented code blocks
	"1.  foo\n\n    - bar\n",                                   // 109 Indented code blocks
	"    <a/>\n    *hi*\n\n    - one\n",                        // 110 Indented code blocks
	"    chunk1\n\n    chunk2\n  \n \n \n    chunk3\n",         // 111 Indented code blocks
	"    chunk1\n      \n      chunk2\n",                       // 112 Indented code blocks
	"Foo\n    bar\n\n",                                         // 113 Indented code blocks
	"    foo\nbar\n",                                           // 114 Indented code blocks
	"# Heading\n    foo\nHeading\n------\n    foo\n----\n",     // 115 Indented code blocks
	"        foo\n    bar\n",                                   // 116 Indented code blocks
	"\n    \n    foo\n    \n\n",                                // 117 Indented code blocks
	"    foo  \n",                                              // 118 Indented code blocks
	"```\n<\n >\n```\n",                                        // 119 Fenced code blocks
	"~~~\n<\n >\n~~~\n",                                        // 120 Fenced code blocks
	"``\nfoo\n``\n",                                            // 121 Fenced code blocks
	"```\naaa\n~~~\n```\n",                                     // 122 Fenced code blocks
	"~~~\naaa\n```\n~~~\n",                                     // 123 Fenced code blocks
	"````\naaa\n```\n``````\n",                                 // 124 Fenced code blocks
	"~~~~\naaa\n~~~\n~~~~\n",                                   // 125 Fenced code blocks
	"```\n",                                                    // 126 Fenced code blocks
	"`````\n\n```\naaa\n",                                      // 127 Fenced code blocks
	"> ```\n> aaa\n\nbbb\n",                                    // 128 Fenced code blocks
	"```\n\n  \n```\n",                                         // 129 Fenced code blocks
	"```\n```\n",                                               // 130 Fenced code blocks
	" ```\n aaa\naaa\n```\n",                                   // 131 Fenced code blocks
	"  ```\naaa\n  aaa\naaa\n  ```\n",                          // 132 Fenced code blocks
	"   ```\n   aaa\n    aaa\n  aaa\n   ```\n",                 // 133 Fenced code blocks
	"    ```\n    aaa\n    ```\n",                              // 134 Fenced code blocks
	"```\naaa\n  ```\n",                                        // 135 Fenced code blocks
	"   ```\naaa\n  ```\n",                                     // 136 Fenced code blocks
	"```\naaa\n    ```\n",                                      // 137 Fenced code blocks
	"``` ```\naaa\n",                                           // 138 Fenced code blocks
	"~~~~~~\naaa\n~~~ ~~\n",                                    // 139 Fenced code blocks
	"foo\n```\nbar\n```\nbaz\n",                                // 140 Fenced code blocks
	"foo\n---\n~~~\nbar\n~~~\n# baz\n",                         // 141 Fenced code blocks
	"```ruby\ndef foo(x)\n  return 3\nend\n```\n",              // 142 Fenced code blocks
	"~~~~    ruby startline=3 $%@#$\ndef foo(x)\n  return 3\nend\n~~~~~~~\n", // 143 Fenced code blocks
	"````;\n````\n",              // 144 Fenced code blocks
	"``` aa ```\nfoo\n",          // 145 Fenced code blocks
	"~~~ aa ``` ~~~\nfoo\n~~~\n", // 146 Fenced code blocks
	"```\n``` aaa\n```\n",        // 147 Fenced code blocks
	"<table><tr><td>\n<pre>\n**Hello**,\n\n_world_.\n</pre>\n</td></tr></table>\n",      // 148 HTML blocks
	"<table>\n  <tr>\n    <td>\n           hi\n    </td>\n  </tr>\n</table>\n\nokay.\n", // 149 HTML blocks
	" <div>\n  *hello*\n         <foo><a>\n",                                            // 150 HTML blocks
	"</div>\n*foo*\n",                                                                   // 151 HTML blocks
	"<DIV CLASS=\"foo\">\n\n*Markdown*\n\n</DIV>\n",                                     // 152 HTML blocks
	"<div id=\"foo\"\n  class=\"bar\">\n</div>\n",                                       // 153 HTML blocks
	"<div id=\"foo\" class=\"bar\n  baz\">\n</div>\n",                                   // 154 HTML blocks
	"<div>\n*foo*\n\n*bar*\n",                                                           // 155 HTML blocks
	"<div id=\"foo\"\n*hi*\n",                                                           // 156 HTML blocks
	"<div class\nfoo\n",                                                                 // 157 HTML blocks
	"<div *???-&&&-<---\n*foo*\n",                                                       // 158 HTML blocks
	"<div><a href=\"bar\">*foo*</a></div>\n",                                            // 159 HTML blocks
	"<table><tr><td>\nfoo\n</td></tr></table>\n",                                        // 160 HTML blocks
	"<div></div>\n``` c\nint x = 33;\n```\n",                                            // 161 HTML blocks
	"<a href=\"foo\">\n*bar*\n</a>\n",                                                   // 162 HTML blocks
	"<Warning>\n*bar*\n</Warning>\n",                                                    // 163 HTML blocks
	"<i class=\"foo\">\n*bar*\n</i>\n",                                                  // 164 HTML blocks
	"</ins>\n*bar*\n",                                                                   // 165 HTML blocks
	"<del>\n*foo*\n</del>\n",                                                            // 166 HTML blocks
	"<del>\n\n*foo*\n\n</del>\n",                                                        // 167 HTML blocks
	"<del>*foo*</del>\n",                                                                // 168 HTML blocks
	"<pre language=\"haskell\"><code>\nimport Text.HTML.TagSoup\n\nmain :: IO ()\nmain = print $ parseTags tags\n</code></pre>\nokay\n",                   // 169 HTML blocks
	"<script type=\"text/javascript\">\n// JavaScript example\n\ndocument.getElementById(\"demo\").innerHTML = \"Hello JavaScript!\";\n</script>\nokay\n", // 170 HTML blocks
	"<textarea>\n\n*foo*\n\n_bar_\n\n</textarea>\n",                                      // 171 HTML blocks
	"<style\n  type=\"text/css\">\nh1 {color:red;}\n\np {color:blue;}\n</style>\nokay\n", // 172 HTML blocks
	"<style\n  type=\"text/css\">\n\nfoo\n",                                              // 173 HTML blocks
	"> <div>\n> foo\n\nbar\n",                                                            // 174 HTML blocks
	"- <div>\n- foo\n",                                                                   // 175 HTML blocks
	"<style>p{color:red;}</style>\n*foo*\n",                                              // 176 HTML blocks
	"<!-- foo -->*bar*\n*baz*\n",                                                         // 177 HTML blocks
	"<script>\nfoo\n</script>1. *bar*\n",                                                 // 178 HTML blocks
	"<!-- Foo\n\nbar\n   baz -->\nokay\n",                                                // 179 HTML blocks
	"<?php\n\n  echo '>';\n\n?>\nokay\n",                                                 // 180 HTML blocks
	"<!DOCTYPE html>\n",                                                                  // 181 HTML blocks
	"<![CDATA[\nfunction matchwo(a,b)\n{\n  if (a < b && a < 0) then {\n    return 1;\n\n  } else {\n\n    return 0;\n  }\n}\n]]>\nokay\n", // 182 HTML blocks
	"  <!-- foo -->\n\n    <!-- foo -->\n",                                        // 183 HTML blocks
	"  <div>\n\n    <div>\n",                                                      // 184 HTML blocks
	"Foo\n<div>\nbar\n</div>\n",                                                   // 185 HTML blocks
	"<div>\nbar\n</div>\n*foo*\n",                                                 // 186 HTML blocks
	"Foo\n<a href=\"bar\">\nbaz\n",                                                // 187 HTML blocks
	"<div>\n\n*Emphasized* text.\n\n</div>\n",                                     // 188 HTML blocks
	"<div>\n*Emphasized* text.\n</div>\n",                                         // 189 HTML blocks
	"<table>\n\n<tr>\n\n<td>\nHi\n</td>\n\n</tr>\n\n</table>\n",                   // 190 HTML blocks
	"<table>\n\n  <tr>\n\n    <td>\n      Hi\n    </td>\n\n  </tr>\n\n</table>\n", // 191 HTML blocks
	"[foo]: /url \"title\"\n\n[foo]\n",                                            // 192 Link reference definitions
	"   [foo]: \n      /url  \n           'the title'  \n\n[foo]\n",               // 193 Link reference definitions
	"[Foo*bar\\]]:my_(url) 'title (with parens)'\n\n[Foo*bar\\]]\n",               // 194 Link reference definitions
	"[Foo bar]:\n<my url>\n'title'\n\n[Foo bar]\n",                                // 195 Link reference definitions
	"[foo]: /url '\ntitle\nline1\nline2\n'\n\n[foo]\n",                            // 196 Link reference definitions
	"[foo]: /url 'title\n\nwith blank line'\n\n[foo]\n",                           // 197 Link reference definitions
	"[foo]:\n/url\n\n[foo]\n",                                                     // 198 Link reference definitions
	"[foo]:\n\n[foo]\n",                                                           // 199 Link reference definitions
	"[foo]: <>\n\n[foo]\n",                                                        // 200 Link reference definitions
	"[foo]: <bar>(baz)\n\n[foo]\n",                                                // 201 Link reference definitions
	"[foo]: /url\\bar\\*baz \"foo\\\"bar\\baz\"\n\n[foo]\n",                       // 202 Link reference definitions
	"[foo]\n\n[foo]: url\n",                                                       // 203 Link reference definitions
	"[foo]\n\n[foo]: first\n[foo]: second\n",                                      // 204 Link reference definitions
	"[FOO]: /url\n\n[Foo]\n",                                                      // 205 Link reference definitions
	"[\u0391\u0393\u03a9]: /\u03c6\u03bf\u03c5\n\n[\u03b1\u03b3\u03c9]\n",         // 206 Link reference definitions
	"[foo]: /url\n",                        // 207 Link reference definitions
	"[\nfoo\n]: /url\nbar\n",               // 208 Link reference definitions
	"[foo]: /url \"title\" ok\n",           // 209 Link reference definitions
	"[foo]: /url\n\"title\" ok\n",          // 210 Link reference definitions
	"    [foo]: /url \"title\"\n\n[foo]\n", // 211 Link reference definitions
	"```\n[foo]: /url\n```\n\n[foo]\n",     // 212 Link reference definitions
	"Foo\n[bar]: /baz\n\n[bar]\n",          // 213 Link reference definitions
	"# [Foo]\n[foo]: /url\n> bar\n",        // 214 Link reference definitions
	"[foo]: /url\nbar\n===\n[foo]\n",       // 215 Link reference definitions
	"[foo]: /url\n===\n[foo]\n",            // 216 Link reference definitions
	"[foo]: /foo-url \"foo\"\n[bar]: /bar-url\n  \"bar\"\n[baz]: /baz-url\n\n[foo],\n[bar],\n[baz]\n", // 217 Link reference definitions
	"[foo]\n\n> [foo]: /url\n", // 218 Link reference definitions
	"aaa\n\nbbb\n",             // 219 Paragraphs
	"aaa\nbbb\n\nccc\nddd\n",   // 220 Paragraphs
	"aaa\n\n\nbbb\n",           // 221 Paragraphs
	"  aaa\n bbb\n",            // 222 Paragraphs
	"aaa\n             bbb\n                                       ccc\n", // 223 Paragraphs
	"   aaa\nbbb\n",                       // 224 Paragraphs
	"    aaa\nbbb\n",                      // 225 Paragraphs
	"aaa     \nbbb     \n",                // 226 Paragraphs
	"  \n\naaa\n  \n\n# aaa\n\n  \n",      // 227 Blank lines
	"> # Foo\n> bar\n> baz\n",             // 228 Block quotes
	"># Foo\n>bar\n> baz\n",               // 229 Block quotes
	"   > # Foo\n   > bar\n > baz\n",      // 230 Block quotes
	"    > # Foo\n    > bar\n    > baz\n", // 231 Block quotes
	"> # Foo\n> bar\nbaz\n",               // 232 Block quotes
	"> bar\nbaz\n> foo\n",                 // 233 Block quotes
	"> foo\n---\n",                        // 234 Block quotes
	"> - foo\n- bar\n",                    // 235 Block quotes
	">     foo\n    bar\n",                // 236 Block quotes
	"> ```\nfoo\n```\n",                   // 237 Block quotes
	"> foo\n    - bar\n",                  // 238 Block quotes
	">\n",                                 // 239 Block quotes
	">\n>  \n> \n",                        // 240 Block quotes
	">\n> foo\n>  \n",                     // 241 Block quotes
	"> foo\n\n> bar\n",                    // 242 Block quotes
	"> foo\n> bar\n",                      // 243 Block quotes
	"> foo\n>\n> bar\n",                   // 244 Block quotes
	"foo\n> bar\n",                        // 245 Block quotes
	"> aaa\n***\n> bbb\n",                 // 246 Block quotes
	"> bar\nbaz\n",                        // 247 Block quotes
	"> bar\n\nbaz\n",                      // 248 Block quotes
	"> bar\n>\nbaz\n",                     // 249 Block quotes
	"> > > foo\nbar\n",                    // 250 Block quotes
	">>> foo\n> bar\n>>baz\n",             // 251 Block quotes
	">     code\n\n>    not code\n",       // 252 Block quotes
	"A paragraph\nwith two lines.\n\n    indented code\n\n> A block quote.\n",                 // 253 List items
	"1.  A paragraph\n    with two lines.\n\n        indented code\n\n    > A block quote.\n", // 254 List items
	"- one\n\n two\n",                  // 255 List items
	"- one\n\n  two\n",                 // 256 List items
	" -    one\n\n     two\n",          // 257 List items
	" -    one\n\n      two\n",         // 258 List items
	"   > > 1.  one\n>>\n>>     two\n", // 259 List items
	">>- one\n>>\n  >  > two\n",        // 260 List items
	"-one\n\n2.two\n",                  // 261 List items
	"- foo\n\n\n  bar\n",               // 262 List items
	"1.  foo\n\n    ```\n    bar\n    ```\n\n    baz\n\n    > bam\n", // 263 List items
	"- Foo\n\n      bar\n\n\n      baz\n",                            // 264 List items
	"123456789. ok\n",                                                // 265 List items
	"1234567890. not ok\n",                                           // 266 List items
	"0. ok\n",                                                        // 267 List items
	"003. ok\n",                                                      // 268 List items
	"-1. not ok\n",                                                   // 269 List items
	"- foo\n\n      bar\n",                                           // 270 List items
	"  10.  foo\n\n           bar\n",                                 // 271 List items
	"    indented code\n\nparagraph\n\n    more code\n",              // 272 List items
	"1.     indented code\n\n   paragraph\n\n       more code\n",  // 273 List items
	"1.      indented code\n\n   paragraph\n\n       more code\n", // 274 List items
	"   foo\n\nbar\n",     // 275 List items
	"-    foo\n\n  bar\n", // 276 List items
	"-  foo\n\n   bar\n",  // 277 List items
	"-\n  foo\n-\n  ```\n  bar\n  ```\n-\n      baz\n", // 278 List items
	"-   \n  foo\n",        // 279 List items
	"-\n\n  foo\n",         // 280 List items
	"- foo\n-\n- bar\n",    // 281 List items
	"- foo\n-   \n- bar\n", // 282 List items
	"1. foo\n2.\n3. bar\n", // 283 List items
	"*\n",                  // 284 List items
	"foo\n*\n\nfoo\n1.\n",  // 285 List items
	" 1.  A paragraph\n     with two lines.\n\n         indented code\n\n     > A block quote.\n",             // 286 List items
	"  1.  A paragraph\n      with two lines.\n\n          indented code\n\n      > A block quote.\n",         // 287 List items
	"   1.  A paragraph\n       with two lines.\n\n           indented code\n\n       > A block quote.\n",     // 288 List items
	"    1.  A paragraph\n        with two lines.\n\n            indented code\n\n        > A block quote.\n", // 289 List items
	"  1.  A paragraph\nwith two lines.\n\n          indented code\n\n      > A block quote.\n",               // 290 List items
	"  1.  A paragraph\n    with two lines.\n",                                                                // 291 List items
	"> 1. > Blockquote\ncontinued here.\n",                                                                    // 292 List items
	"> 1. > Blockquote\n> continued here.\n",                                                                  // 293 List items
	"- foo\n  - bar\n    - baz\n      - boo\n",                                                                // 294 List items
	"- foo\n - bar\n  - baz\n   - boo\n",                                                                      // 295 List items
	"10) foo\n    - bar\n",                                                                                    // 296 List items
	"10) foo\n   - bar\n",                                                                                     // 297 List items
	"- - foo\n",                                                                                               // 298 List items
	"1. - 2. foo\n",                                                                                           // 299 List items
	"- # Foo\n- Bar\n  ---\n  baz\n",                                                                          // 300 List items
	"- foo\n- bar\n+ baz\n",                                                                                   // 301 Lists
	"1. foo\n2. bar\n3) baz\n",                                                                                // 302 Lists
	"Foo\n- bar\n- baz\n",                                                                                     // 303 Lists
	"The number of windows in my house is\n14.  The number of doors is 6.\n",                                  // 304 Lists
	"The number of windows in my house is\n1.  The number of doors is 6.\n",                                   // 305 Lists
	"- foo\n\n- bar\n\n\n- baz\n",                                                                             // 306 Lists
	"- foo\n  - bar\n    - baz\n\n\n      bim\n",                                                              // 307 Lists
	"- foo\n- bar\n\n<!-- -->\n\n- baz\n- bim\n",                                                              // 308 Lists
	"-   foo\n\n    notcode\n\n-   foo\n\n<!-- -->\n\n    code\n",                                             // 309 Lists
	"- a\n - b\n  - c\n   - d\n  - e\n - f\n- g\n",                                                            // 310 Lists
	"1. a\n\n  2. b\n\n   3. c\n",                                                                             // 311 Lists
	"- a\n - b\n  - c\n   - d\n    - e\n",                                                                     // 312 Lists
	"1. a\n\n  2. b\n\n    3. c\n",                                                                            // 313 Lists
	"- a\n- b\n\n- c\n",                                                                                       // 314 Lists
	"* a\n*\n\n* c\n",                                                                                         // 315 Lists
	"- a\n- b\n\n  c\n- d\n",                                                                                  // 316 Lists
	"- a\n- b\n\n  [ref]: /url\n- d\n",                                                                        // 317 Lists
	"- a\n- ```\n  b\n\n\n  ```\n- c\n",                                                                       // 318 Lists
	"- a\n  - b\n\n    c\n- d\n",                                                                              // 319 Lists
	"* a\n  > b\n  >\n* c\n",                                                                                  // 320 Lists
	"- a\n  > b\n  ```\n  c\n  ```\n- d\n",                                                                    // 321 Lists
	"- a\n",                                                                                                   // 322 Lists
	"- a\n  - b\n",                                                                                            // 323 Lists
	"1. ```\n   foo\n   ```\n\n   bar\n",                                                                      // 324 Lists
	"* foo\n  * bar\n\n  baz\n",                                                                               // 325 Lists
	"- a\n  - b\n  - c\n\n- d\n  - e\n  - f\n",                                                                // 326 Lists
	"`hi`lo`\n",                  // 327 Inlines
	"`foo`\n",                    // 328 Code spans
	"`` foo ` bar ``\n",          // 329 Code spans
	"` `` `\n",                   // 330 Code spans
	"`  ``  `\n",                 // 331 Code spans
	"` a`\n",                     // 332 Code spans
	"`\u00a0b\u00a0`\n",          // 333 Code spans
	"`\u00a0`\n`  `\n",           // 334 Code spans
	"``\nfoo\nbar  \nbaz\n``\n",  // 335 Code spans
	"``\nfoo \n``\n",             // 336 Code spans
	"`foo   bar \nbaz`\n",        // 337 Code spans
	"`foo\\`bar`\n",              // 338 Code spans
	"``foo`bar``\n",              // 339 Code spans
	"` foo `` bar `\n",           // 340 Code spans
	"*foo`*`\n",                  // 341 Code spans
	"[not a `link](/foo`)\n",     // 342 Code spans
	"`<a href=\"`\">`\n",         // 343 Code spans
	"<a href=\"`\">`\n",          // 344 Code spans
	"`<https://foo.bar.`baz>`\n", // 345 Code spans
	"<https://foo.bar.`baz>`\n",  // 346 Code spans
	"```foo``\n",                 // 347 Code spans
	"`foo\n",                     // 348 Code spans
	"`foo``bar``\n",              // 349 Code spans
	"*foo bar*\n",                // 350 Emphasis and strong emphasis
	"a * foo bar*\n",             // 351 Emphasis and strong emphasis
	"a*\"foo\"*\n",               // 352 Emphasis and strong emphasis
	"*\u00a0a\u00a0*\n",          // 353 Emphasis and strong emphasis
	"*$*alpha.\n\n*\u00a3*bravo.\n\n*\u20ac*charlie.\n", // 354 Emphasis and strong emphasis
	"foo*bar*\n",   // 355 Emphasis and strong emphasis
	"5*6*78\n",     // 356 Emphasis and strong emphasis
	"_foo bar_\n",  // 357 Emphasis and strong emphasis
	"_ foo bar_\n", // 358 Emphasis and strong emphasis
	"a_\"foo\"_\n", // 359 Emphasis and strong emphasis
	"foo_bar_\n",   // 360 Emphasis and strong emphasis
	"5_6_78\n",     // 361 Emphasis and strong emphasis
	"\u043f\u0440\u0438\u0441\u0442\u0430\u043d\u044f\u043c_\u0441\u0442\u0440\u0435\u043c\u044f\u0442\u0441\u044f_\n", // 362 Emphasis and strong emphasis
	"aa_\"bb\"_cc\n", // 363 Emphasis and strong emphasis
	"foo-_(bar)_\n",  // 364 Emphasis and strong emphasis
	"_foo*\n",        // 365 Emphasis and strong emphasis
	"*foo bar *\n",   // 366 Emphasis and strong emphasis
	"*foo bar\n*\n",  // 367 Emphasis and strong emphasis
	"*(*foo)\n",      // 368 Emphasis and strong emphasis
	"*(*foo*)*\n",    // 369 Emphasis and strong emphasis
	"*foo*bar\n",     // 370 Emphasis and strong emphasis
	"_foo bar _\n",   // 371 Emphasis and strong emphasis
	"_(_foo)\n",      // 372 Emphasis and strong emphasis
	"_(_foo_)_\n",    // 373 Emphasis and strong emphasis
	"_foo_bar\n",     // 374 Emphasis and strong emphasis
	"_\u043f\u0440\u0438\u0441\u0442\u0430\u043d\u044f\u043c_\u0441\u0442\u0440\u0435\u043c\u044f\u0442\u0441\u044f\n", // 375 Emphasis and strong emphasis
	"_foo_bar_baz_\n", // 376 Emphasis and strong emphasis
	"_(bar)_.\n",      // 377 Emphasis and strong emphasis
	"**foo bar**\n",   // 378 Emphasis and strong emphasis
	"** foo bar**\n",  // 379 Emphasis and strong emphasis
	"a**\"foo\"**\n",  // 380 Emphasis and strong emphasis
	"foo**bar**\n",    // 381 Emphasis and strong emphasis
	"__foo bar__\n",   // 382 Emphasis and strong emphasis
	"__ foo bar__\n",  // 383 Emphasis and strong emphasis
	"__\nfoo bar__\n", // 384 Emphasis and strong emphasis
	"a__\"foo\"__\n",  // 385 Emphasis and strong emphasis
	"foo__bar__\n",    // 386 Emphasis and strong emphasis
	"5__6__78\n",      // 387 Emphasis and strong emphasis
	"\u043f\u0440\u0438\u0441\u0442\u0430\u043d\u044f\u043c__\u0441\u0442\u0440\u0435\u043c\u044f\u0442\u0441\u044f__\n", // 388 Emphasis and strong emphasis
	"__foo, __bar__, baz__\n", // 389 Emphasis and strong emphasis
	"foo-__(bar)__\n",         // 390 Emphasis and strong emphasis
	"**foo bar **\n",          // 391 Emphasis and strong emphasis
	"**(**foo)\n",             // 392 Emphasis and strong emphasis
	"*(**foo**)*\n",           // 393 Emphasis and strong emphasis
	"**Gomphocarpus (*Gomphocarpus physocarpus*, syn.\n*Asclepias physocarpa*)**\n", // 394 Emphasis and strong emphasis
	"**foo \"*bar*\" foo**\n", // 395 Emphasis and strong emphasis
	"**foo**bar\n",            // 396 Emphasis and strong emphasis
	"__foo bar __\n",          // 397 Emphasis and strong emphasis
	"__(__foo)\n",             // 398 Emphasis and strong emphasis
	"_(__foo__)_\n",           // 399 Emphasis and strong emphasis
	"__foo__bar\n",            // 400 Emphasis and strong emphasis
	"__\u043f\u0440\u0438\u0441\u0442\u0430\u043d\u044f\u043c__\u0441\u0442\u0440\u0435\u043c\u044f\u0442\u0441\u044f\n", // 401 Emphasis and strong emphasis
	"__foo__bar__baz__\n",                    // 402 Emphasis and strong emphasis
	"__(bar)__.\n",                           // 403 Emphasis and strong emphasis
	"*foo [bar](/url)*\n",                    // 404 Emphasis and strong emphasis
	"*foo\nbar*\n",                           // 405 Emphasis and strong emphasis
	"_foo __bar__ baz_\n",                    // 406 Emphasis and strong emphasis
	"_foo _bar_ baz_\n",                      // 407 Emphasis and strong emphasis
	"__foo_ bar_\n",                          // 408 Emphasis and strong emphasis
	"*foo *bar**\n",                          // 409 Emphasis and strong emphasis
	"*foo **bar** baz*\n",                    // 410 Emphasis and strong emphasis
	"*foo**bar**baz*\n",                      // 411 Emphasis and strong emphasis
	"*foo**bar*\n",                           // 412 Emphasis and strong emphasis
	"***foo** bar*\n",                        // 413 Emphasis and strong emphasis
	"*foo **bar***\n",                        // 414 Emphasis and strong emphasis
	"*foo**bar***\n",                         // 415 Emphasis and strong emphasis
	"foo***bar***baz\n",                      // 416 Emphasis and strong emphasis
	"foo******bar*********baz\n",             // 417 Emphasis and strong emphasis
	"*foo **bar *baz* bim** bop*\n",          // 418 Emphasis and strong emphasis
	"*foo [*bar*](/url)*\n",                  // 419 Emphasis and strong emphasis
	"** is not an empty emphasis\n",          // 420 Emphasis and strong emphasis
	"**** is not an empty strong emphasis\n", // 421 Emphasis and strong emphasis
	"**foo [bar](/url)**\n",                  // 422 Emphasis and strong emphasis
	"**foo\nbar**\n",                         // 423 Emphasis and strong emphasis
	"__foo _bar_ baz__\n",                    // 424 Emphasis and strong emphasis
	"__foo __bar__ baz__\n",                  // 425 Emphasis and strong emphasis
	"____foo__ bar__\n",                      // 426 Emphasis and strong emphasis
	"**foo **bar****\n",                      // 427 Emphasis and strong emphasis
	"**foo *bar* baz**\n",                    // 428 Emphasis and strong emphasis
	"**foo*bar*baz**\n",                      // 429 Emphasis and strong emphasis
	"***foo* bar**\n",                        // 430 Emphasis and strong emphasis
	"**foo *bar***\n",                        // 431 Emphasis and strong emphasis
	"**foo *bar **baz**\nbim* bop**\n",       // 432 Emphasis and strong emphasis
	"**foo [*bar*](/url)**\n",                // 433 Emphasis and strong emphasis
	"__ is not an empty emphasis\n",          // 434 Emphasis and strong emphasis
	"____ is not an empty strong emphasis\n", // 435 Emphasis and strong emphasis
	"foo ***\n",                              // 436 Emphasis and strong emphasis
	"foo *\\**\n",                            // 437 Emphasis and strong emphasis
	"foo *_*\n",                              // 438 Emphasis and strong emphasis
	"foo *****\n",                            // 439 Emphasis and strong emphasis
	"foo **\\***\n",                          // 440 Emphasis and strong emphasis
	"foo **_**\n",                            // 441 Emphasis and strong emphasis
	"**foo*\n",                               // 442 Emphasis and strong emphasis
	"*foo**\n",                               // 443 Emphasis and strong emphasis
	"***foo**\n",                             // 444 Emphasis and strong emphasis
	"****foo*\n",                             // 445 Emphasis and strong emphasis
	"**foo***\n",                             // 446 Emphasis and strong emphasis
	"*foo****\n",                             // 447 Emphasis and strong emphasis
	"foo ___\n",                              // 448 Emphasis and strong emphasis
	"foo _\\__\n",                            // 449 Emphasis and strong emphasis
	"foo _*_\n",                              // 450 Emphasis and strong emphasis
	"foo _____\n",                            // 451 Emphasis and strong emphasis
	"foo __\\___\n",                          // 452 Emphasis and strong emphasis
	"foo __*__\n",                            // 453 Emphasis and strong emphasis
	"__foo_\n",                               // 454 Emphasis and strong emphasis
	"_foo__\n",                               // 455 Emphasis and strong emphasis
	"___foo__\n",                             // 456 Emphasis and strong emphasis
	"____foo_\n",                             // 457 Emphasis and strong emphasis
	"__foo___\n",                             // 458 Emphasis and strong emphasis
	"_foo____\n",                             // 459 Emphasis and strong emphasis
	"**foo**\n",                              // 460 Emphasis and strong emphasis
	"*_foo_*\n",                              // 461 Emphasis and strong emphasis
	"__foo__\n",                              // 462 Emphasis and strong emphasis
	"_*foo*_\n",                              // 463 Emphasis and strong emphasis
	"****foo****\n",                          // 464 Emphasis and strong emphasis
	"____foo____\n",                          // 465 Emphasis and strong emphasis
	"******foo******\n",                      // 466 Emphasis and strong emphasis
	"***foo***\n",                            // 467 Emphasis and strong emphasis
	"_____foo_____\n",                        // 468 Emphasis and strong emphasis
	"*foo _bar* baz_\n",                      // 469 Emphasis and strong emphasis
	"*foo __bar *baz bim__ bam*\n",           // 470 Emphasis and strong emphasis
	"**foo **bar baz**\n",                    // 471 Emphasis and strong emphasis
	"*foo *bar baz*\n",                       // 472 Emphasis and strong emphasis
	"*[bar*](/url)\n",                        // 473 Emphasis and strong emphasis
	"_foo [bar_](/url)\n",                    // 474 Emphasis and strong emphasis
	"*<img src=\"foo\" title=\"*\"/>\n",      // 475 Emphasis and strong emphasis
	"**<a href=\"**\">\n",                    // 476 Emphasis and strong emphasis
	"__<a href=\"__\">\n",                    // 477 Emphasis and strong emphasis
	"*a `*`*\n",                              // 478 Emphasis and strong emphasis
	"_a `_`_\n",                              // 479 Emphasis and strong emphasis
	"**a<https://foo.bar/?q=**>\n",           // 480 Emphasis and strong emphasis
	"__a<https://foo.bar/?q=__>\n",           // 481 Emphasis and strong emphasis
	"[link](/uri \"title\")\n",               // 482 Links
	"[link](/uri)\n",                         // 483 Links
	"[](./target.md)\n",                      // 484 Links
	"[link]()\n",                             // 485 Links
	"[link](<>)\n",                           // 486 Links
	"[]()\n",                                 // 487 Links
	"[link](/my uri)\n",                      // 488 Links
	"[link](</my uri>)\n",                    // 489 Links
	"[link](foo\nbar)\n",                     // 490 Links
	"[link](<foo\nbar>)\n",                   // 491 Links
	"[a](<b)c>)\n",                           // 492 Links
	"[link](<foo\\>)\n",                      // 493 Links
	"[a](<b)c\n[a](<b)c>\n[a](<b>c)\n",       // 494 Links
	"[link](\\(foo\\))\n",                    // 495 Links
	"[link](foo(and(bar)))\n",                // 496 Links
	"[link](foo(and(bar))\n",                 // 497 Links
	"[link](foo\\(and\\(bar\\))\n",           // 498 Links
	"[link](<foo(and(bar)>)\n",               // 499 Links
	"[link](foo\\)\\:)\n",                    // 500 Links
	"[link](#fragment)\n\n[link](https://example.com#fragment)\n\n[link](https://example.com?foo=3#frag)\n", // 501 Links
	"[link](foo\\bar)\n",      // 502 Links
	"[link](foo%20b&auml;)\n", // 503 Links
	"[link](\"title\")\n",     // 504 Links
	"[link](/url \"title\")\n[link](/url 'title')\n[link](/url (title))\n",  // 505 Links
	"[link](/url \"title \\\"&quot;\")\n",                                   // 506 Links
	"[link](/url\u00a0\"title\")\n",                                         // 507 Links
	"[link](/url \"title \"and\" title\")\n",                                // 508 Links
	"[link](/url 'title \"and\" title')\n",                                  // 509 Links
	"[link](   /uri\n  \"title\"  )\n",                                      // 510 Links
	"[link] (/uri)\n",                                                       // 511 Links
	"[link [foo [bar]]](/uri)\n",                                            // 512 Links
	"[link] bar](/uri)\n",                                                   // 513 Links
	"[link [bar](/uri)\n",                                                   // 514 Links
	"[link \\[bar](/uri)\n",                                                 // 515 Links
	"[link *foo **bar** `#`*](/uri)\n",                                      // 516 Links
	"[![moon](moon.jpg)](/uri)\n",                                           // 517 Links
	"[foo [bar](/uri)](/uri)\n",                                             // 518 Links
	"[foo *[bar [baz](/uri)](/uri)*](/uri)\n",                               // 519 Links
	"![[[foo](uri1)](uri2)](uri3)\n",                                        // 520 Links
	"*[foo*](/uri)\n",                                                       // 521 Links
	"[foo *bar](baz*)\n",                                                    // 522 Links
	"*foo [bar* baz]\n",                                                     // 523 Links
	"[foo <bar attr=\"](baz)\">\n",                                          // 524 Links
	"[foo`](/uri)`\n",                                                       // 525 Links
	"[foo<https://example.com/?search=](uri)>\n",                            // 526 Links
	"[foo][bar]\n\n[bar]: /url \"title\"\n",                                 // 527 Links
	"[link [foo [bar]]][ref]\n\n[ref]: /uri\n",                              // 528 Links
	"[link \\[bar][ref]\n\n[ref]: /uri\n",                                   // 529 Links
	"[link *foo **bar** `#`*][ref]\n\n[ref]: /uri\n",                        // 530 Links
	"[![moon](moon.jpg)][ref]\n\n[ref]: /uri\n",                             // 531 Links
	"[foo [bar](/uri)][ref]\n\n[ref]: /uri\n",                               // 532 Links
	"[foo *bar [baz][ref]*][ref]\n\n[ref]: /uri\n",                          // 533 Links
	"*[foo*][ref]\n\n[ref]: /uri\n",                                         // 534 Links
	"[foo *bar][ref]*\n\n[ref]: /uri\n",                                     // 535 Links
	"[foo <bar attr=\"][ref]\">\n\n[ref]: /uri\n",                           // 536 Links
	"[foo`][ref]`\n\n[ref]: /uri\n",                                         // 537 Links
	"[foo<https://example.com/?search=][ref]>\n\n[ref]: /uri\n",             // 538 Links
	"[foo][BaR]\n\n[bar]: /url \"title\"\n",                                 // 539 Links
	"[\u1e9e]\n\n[SS]: /url\n",                                              // 540 Links
	"[Foo\n  bar]: /url\n\n[Baz][Foo bar]\n",                                // 541 Links
	"[foo] [bar]\n\n[bar]: /url \"title\"\n",                                // 542 Links
	"[foo]\n[bar]\n\n[bar]: /url \"title\"\n",                               // 543 Links
	"[foo]: /url1\n\n[foo]: /url2\n\n[bar][foo]\n",                          // 544 Links
	"[bar][foo\\!]\n\n[foo!]: /url\n",                                       // 545 Links
	"[foo][ref[]\n\n[ref[]: /uri\n",                                         // 546 Links
	"[foo][ref[bar]]\n\n[ref[bar]]: /uri\n",                                 // 547 Links
	"[[[foo]]]\n\n[[[foo]]]: /url\n",                                        // 548 Links
	"[foo][ref\\[]\n\n[ref\\[]: /uri\n",                                     // 549 Links
	"[bar\\\\]: /uri\n\n[bar\\\\]\n",                                        // 550 Links
	"[]\n\n[]: /uri\n",                                                      // 551 Links
	"[\n ]\n\n[\n ]: /uri\n",                                                // 552 Links
	"[foo][]\n\n[foo]: /url \"title\"\n",                                    // 553 Links
	"[*foo* bar][]\n\n[*foo* bar]: /url \"title\"\n",                        // 554 Links
	"[Foo][]\n\n[foo]: /url \"title\"\n",                                    // 555 Links
	"[foo] \n[]\n\n[foo]: /url \"title\"\n",                                 // 556 Links
	"[foo]\n\n[foo]: /url \"title\"\n",                                      // 557 Links
	"[*foo* bar]\n\n[*foo* bar]: /url \"title\"\n",                          // 558 Links
	"[[*foo* bar]]\n\n[*foo* bar]: /url \"title\"\n",                        // 559 Links
	"[[bar [foo]\n\n[foo]: /url\n",                                          // 560 Links
	"[Foo]\n\n[foo]: /url \"title\"\n",                                      // 561 Links
	"[foo] bar\n\n[foo]: /url\n",                                            // 562 Links
	"\\[foo]\n\n[foo]: /url \"title\"\n",                                    // 563 Links
	"[foo*]: /url\n\n*[foo*]\n",                                             // 564 Links
	"[foo][bar]\n\n[foo]: /url1\n[bar]: /url2\n",                            // 565 Links
	"[foo][]\n\n[foo]: /url1\n",                                             // 566 Links
	"[foo]()\n\n[foo]: /url1\n",                                             // 567 Links
	"[foo](not a link)\n\n[foo]: /url1\n",                                   // 568 Links
	"[foo][bar][baz]\n\n[baz]: /url\n",                                      // 569 Links
	"[foo][bar][baz]\n\n[baz]: /url1\n[bar]: /url2\n",                       // 570 Links
	"[foo][bar][baz]\n\n[baz]: /url1\n[foo]: /url2\n",                       // 571 Links
	"![foo](/url \"title\")\n",                                              // 572 Images
	"![foo *bar*]\n\n[foo *bar*]: train.jpg \"train & tracks\"\n",           // 573 Images
	"![foo ![bar](/url)](/url2)\n",                                          // 574 Images
	"![foo [bar](/url)](/url2)\n",                                           // 575 Images
	"![foo *bar*][]\n\n[foo *bar*]: train.jpg \"train & tracks\"\n",         // 576 Images
	"![foo *bar*][foobar]\n\n[FOOBAR]: train.jpg \"train & tracks\"\n",      // 577 Images
	"![foo](train.jpg)\n",                                                   // 578 Images
	"My ![foo bar](/path/to/train.jpg  \"title\"   )\n",                     // 579 Images
	"![foo](<url>)\n",                                                       // 580 Images
	"![](/url)\n",                                                           // 581 Images
	"![foo][bar]\n\n[bar]: /url\n",                                          // 582 Images
	"![foo][bar]\n\n[BAR]: /url\n",                                          // 583 Images
	"![foo][]\n\n[foo]: /url \"title\"\n",                                   // 584 Images
	"![*foo* bar][]\n\n[*foo* bar]: /url \"title\"\n",                       // 585 Images
	"![Foo][]\n\n[foo]: /url \"title\"\n",                                   // 586 Images
	"![foo] \n[]\n\n[foo]: /url \"title\"\n",                                // 587 Images
	"![foo]\n\n[foo]: /url \"title\"\n",                                     // 588 Images
	"![*foo* bar]\n\n[*foo* bar]: /url \"title\"\n",                         // 589 Images
	"![[foo]]\n\n[[foo]]: /url \"title\"\n",                                 // 590 Images
	"![Foo]\n\n[foo]: /url \"title\"\n",                                     // 591 Images
	"!\\[foo]\n\n[foo]: /url \"title\"\n",                                   // 592 Images
	"\\![foo]\n\n[foo]: /url \"title\"\n",                                   // 593 Images
	"<http://foo.bar.baz>\n",                                                // 594 Autolinks
	"<https://foo.bar.baz/test?q=hello&id=22&boolean>\n",                    // 595 Autolinks
	"<irc://foo.bar:2233/baz>\n",                                            // 596 Autolinks
	"<MAILTO:FOO@BAR.BAZ>\n",                                                // 597 Autolinks
	"<a+b+c:d>\n",                                                           // 598 Autolinks
	"<made-up-scheme://foo,bar>\n",                                          // 599 Autolinks
	"<https://../>\n",                                                       // 600 Autolinks
	"<localhost:5001/foo>\n",                                                // 601 Autolinks
	"<https://foo.bar/baz bim>\n",                                           // 602 Autolinks
	"<https://example.com/\\[\\>\n",                                         // 603 Autolinks
	"<foo@bar.example.com>\n",                                               // 604 Autolinks
	"<foo+special@Bar.baz-bar0.com>\n",                                      // 605 Autolinks
	"<foo\\+@bar.example.com>\n",                                            // 606 Autolinks
	"<>\n",                                                                  // 607 Autolinks
	"< https://foo.bar >\n",                                                 // 608 Autolinks
	"<m:abc>\n",                                                             // 609 Autolinks
	"<foo.bar.baz>\n",                                                       // 610 Autolinks
	"https://example.com\n",                                                 // 611 Autolinks
	"foo@bar.example.com\n",                                                 // 612 Autolinks
	"<a><bab><c2c>\n",                                                       // 613 Raw HTML
	"<a/><b2/>\n",                                                           // 614 Raw HTML
	"<a  /><b2\ndata=\"foo\" >\n",                                           // 615 Raw HTML
	"<a foo=\"bar\" bam = 'baz <em>\"</em>'\n_boolean zoop:33=zoop:33 />\n", // 616 Raw HTML
	"Foo <responsive-image src=\"foo.jpg\" />\n",                            // 617 Raw HTML
	"<33> <__>\n",                                                           // 618 Raw HTML
	"<a h*#ref=\"hi\">\n",                                                   // 619 Raw HTML
	"<a href=\"hi'> <a href=hi'>\n",                                         // 620 Raw HTML
	"< a><\nfoo><bar/ >\n<foo bar=baz\nbim!bop />\n",                        // 621 Raw HTML
	"<a href='bar'title=title>\n",                                           // 622 Raw HTML
	"</a></foo >\n",                                                         // 623 Raw HTML
	"</a href=\"foo\">\n",                                                   // 624 Raw HTML
	"foo <!-- this is a --\ncomment - with hyphens -->\n",                   // 625 Raw HTML
	"foo <!--> foo -->\n\nfoo <!---> foo -->\n",                             // 626 Raw HTML
	"foo <?php echo $a; ?>\n",                                               // 627 Raw HTML
	"foo <!ELEMENT br EMPTY>\n",                                             // 628 Raw HTML
	"foo <![CDATA[>&<]]>\n",                                                 // 629 Raw HTML
	"foo <a href=\"&ouml;\">\n",                                             // 630 Raw HTML
	"foo <a href=\"\\*\">\n",                                                // 631 Raw HTML
	"<a href=\"\\\"\">\n",                                                   // 632 Raw HTML
	"foo  \nbaz\n",                                                          // 633 Hard line breaks
	"foo\\\nbaz\n",                                                          // 634 Hard line breaks
	"foo       \nbaz\n",                                                     // 635 Hard line breaks
	"foo  \n     bar\n",                                                     // 636 Hard line breaks
	"foo\\\n     bar\n",                                                     // 637 Hard line breaks
	"*foo  \nbar*\n",                                                        // 638 Hard line breaks
	"*foo\\\nbar*\n",                                                        // 639 Hard line breaks
	"`code  \nspan`\n",                                                      // 640 Hard line breaks
	"`code\\\nspan`\n",                                                      // 641 Hard line breaks
	"<a href=\"foo  \nbar\">\n",                                             // 642 Hard line breaks
	"<a href=\"foo\\\nbar\">\n",                                             // 643 Hard line breaks
	"foo\\\n",                                                               // 644 Hard line breaks
	"foo  \n",                                                               // 645 Hard line breaks
	"### foo\\\n",                                                           // 646 Hard line breaks
	"### foo  \n",                                                           // 647 Hard line breaks
	"foo\nbaz\n",                                                            // 648 Soft line breaks
	"foo \n baz\n",                                                          // 649 Soft line breaks
	"hello $.;'there\n",                                                     // 650 Textual content
	"Foo \u03c7\u03c1\u1fc6\u03bd\n",                                        // 651 Textual content
	"Multiple     spaces\n",                                                 // 652 Textual content
}
