package props

// C35 Markdown rendering is total and agrees with CommonMark on the supported subset.
//
//   C35/commonmark  differential: md.RenderString(src, &md.HTMLCodec{}) against
//                   goldmark v1.4.13 (CommonMark 0.30, html.WithUnsafe, XHTML) after
//                   c35Normalise, for documents inside the documented subset
//                   (decided by c35Outside on the text and by the reference parse:
//                   no tight list, no setext heading, no link reference definition).
//   C35/total       any byte string: rendering returns (no panic; the per-case
//                   watchdog of the harness catches non-termination), and the
//                   output is valid UTF-8 whenever the input is.

import (
	"fmt"
	"strings"
	"sync"
	"time"
	"unicode/utf8"

	"pgregory.net/rapid"
	"src.elv.sh/pkg/md"
	"verif/gen"
	"verif/vs"
)

type c35Case struct {
	Kind string `json:"kind"` // grammar | soup | spec-mutant | bytes | big
	Src  vs.B   `json:"src"`
}

func c35GenDoc(t *rapid.T) c35Case {
	switch k := c35Uniform(t, "kind", 10); {
	case k < 6:
		return c35Case{Kind: "grammar", Src: vs.B(c35Doc(t))}
	case k < 8:
		return c35Case{Kind: "soup", Src: vs.B(c35Soup(t))}
	default:
		seeds := c35Seeds()
		seed := rapid.SampledFrom(seeds).Draw(t, "seed")
		other := rapid.SampledFrom(seeds).Draw(t, "other")
		return c35Case{Kind: "spec-mutant", Src: vs.B(c35Mutate(t, seed, other))}
	}
}

var c35SeedsOnce struct {
	sync.Once
	seeds []string
}

// c35Seeds are the spec examples that lie inside the supported subset.
func c35Seeds() []string {
	c35SeedsOnce.Do(func() {
		for _, s := range c35SpecExamples {
			if c35Outside(s) == "" && c35Reference(s).Outside == "" {
				c35SeedsOnce.seeds = append(c35SeedsOnce.seeds, s)
			}
		}
	})
	return c35SeedsOnce.seeds
}

// c35Domain returns "" if src is inside the subset on which equality with
// CommonMark is claimed, otherwise the reason; ref is the reference rendering.
func c35Domain(c c35Case) (outside, ref string) {
	src := string(c.Src)
	if o := c35Outside(src); o != "" {
		return o, ""
	}
	if o := c35OracleLimit(src); o != "" {
		return o, ""
	}
	r := c35Reference(src)
	if r.Outside != "" {
		return r.Outside, r.HTML
	}
	if r.Limit != "" {
		return r.Limit, r.HTML
	}
	if c.Kind != "known" {
		if o := c35KnownShape(src, &r); o != "" {
			return o, r.HTML
		}
	}
	return "", r.HTML
}

func c35CheckCommonMark(c c35Case) error {
	src := string(c.Src)
	got := c35Elvish(src)
	outside, ref := c35Domain(c)
	if outside != "" {
		vs.Excluded(outside)
		return nil
	}
	ng, nr := c35Normalise(got), c35Normalise(ref)
	if ng != nr {
		return fmt.Errorf("HTML differs from CommonMark for a document inside the supported subset\ninput:     %q\nelvish:    %q\ncommonmark:%q\n(normalised elvish %q\n normalised ref    %q)", src, got, ref, ng, nr)
	}
	return nil
}

func c35Features(src, html string) string {
	var fs []string
	add := func(cond bool, name string) {
		if cond {
			fs = append(fs, name)
		}
	}
	add(strings.Contains(html, "<li>"), "list")
	add(strings.Contains(html, "<blockquote>"), "quote")
	add(strings.Contains(html, "<pre><code"), "code")
	add(strings.Contains(html, "<em>") || strings.Contains(html, "<strong>"), "emph")
	add(strings.Contains(html, "<a href") || strings.Contains(html, "<img src"), "link")
	if len(fs) == 0 {
		return "plain"
	}
	if len(fs) > 2 {
		return "3+features"
	}
	return strings.Join(fs, "+")
}

func c35Class(c c35Case) (string, bool) {
	src := string(c.Src)
	outside, ref := c35Domain(c)
	if outside != "" {
		if i := strings.IndexByte(outside, ':'); i > 0 {
			outside = outside[:i]
		}
		return "outside/" + outside, false
	}
	f := c35Features(src, ref)
	return c.Kind + "/" + f, f != "plain" || strings.ContainsAny(src, "*_[`<&\\#>-")
}

func init() {
	vs.Register(vs.Prop[c35Case]{
		Name:  "C35/commonmark",
		Rule:  "documents from (60%) a block/inline grammar restricted to the documented subset (LF, spaces, ATX headings, fenced+indented code, quotes with lazy lines, lists loose by construction, thematic breaks, HTML blocks 1-7, emphasis, links/images with all destination/title forms, code spans, autolinks, raw HTML, entities, escapes, hard/soft breaks, block-start triggers on continuation lines), (20%) a soup of Markdown tokens, (20%) CommonMark spec examples with 1-3 token-level mutations; a document is compared only if it is inside the subset (text rules + reference parse: no tight list/setext/reference definition), everything else is counted as excluded; non-trivial = inside the subset and containing at least one Markdown metacharacter or block construct",
		Gen:   c35GenDoc,
		Check: c35CheckCommonMark,
		Class: c35Class,
		Quick: 30000, Thorough: 100000,
		Timeout: 30 * time.Second,
		Known: []vs.Known[c35Case]{
			{Key: "C35:numeric-reference-zero", Case: c35Case{Kind: "known", Src: "&#0;\n"}},
			{Key: "C35:quote-entity", Case: c35Case{Kind: "known", Src: "&quote;\n"}},
			{Key: "C35:html-block-closing-pre-tag", Case: c35Case{Kind: "known", Src: "</pre>\n"}},
			{Key: "C35:empty-item-with-space-interrupts-paragraph", Case: c35Case{Kind: "known", Src: "a\n* \n"}},
			{Key: "C35:html-block-1-prefix-match", Case: c35Case{Kind: "known", Src: "a\n<prefix>\n"}},
			{Key: "C35:email-autolink-after-slash-or-question", Case: c35Case{Kind: "known", Src: "x </a@b.c>\n"}},
			{Key: "C35:list-start-after-quote-marker-interrupting-paragraph", Case: c35Case{Kind: "known", Src: "a\n> 2. b\n>\n> 3. c\n"}},
			{Key: "C35:continuation-indent-kept", Case: c35Case{Kind: "known", Src: "`a\n  b`\n"}},
		},
	})
}

// ---- C35/total ----------------------------------------------------------------

func c35GenBytes(t *rapid.T) c35Case {
	switch k := c35Uniform(t, "kind", 25); {
	case k < 8:
		return c35Case{Kind: "bytes", Src: gen.Str(t, "s", 40)}
	case k < 13:
		// Markdown tokens mixed with hostile atoms (tabs, CR, NUL, invalid UTF-8)
		n := rapid.IntRange(1, 30).Draw(t, "n")
		var sb strings.Builder
		for i := 0; i < n; i++ {
			if c35Chance(t, "hostile", 25) {
				sb.WriteString(rapid.SampledFrom(gen.Atoms).Draw(t, "atom"))
			} else {
				sb.WriteString(rapid.SampledFrom(c35SoupTokens).Draw(t, "tok"))
			}
		}
		return c35Case{Kind: "hostile-soup", Src: vs.B(sb.String())}
	case k < 19:
		s := c35Doc(t)
		// byte-level damage: may cut runes, insert tabs/CR/NUL/invalid bytes
		m := rapid.IntRange(1, 4).Draw(t, "dmg#")
		for i := 0; i < m; i++ {
			pos := rapid.IntRange(0, len(s)).Draw(t, "pos")
			switch c35Uniform(t, "dmg", 3) {
			case 0:
				s = s[:pos] + c35Pick(t, "bad", "\t", "\r", "\r\n", "\x00", "\xff", "\xc0", "\xe4\xb8", "\t\t", " \t", "\v", "\f", "\u0085", " ") + s[pos:]
			case 1:
				end := pos + rapid.IntRange(1, 4).Draw(t, "cut")
				if end > len(s) {
					end = len(s)
				}
				s = s[:pos] + s[end:]
			default:
				s = s[:pos]
			}
		}
		return c35Case{Kind: "damaged-grammar", Src: vs.B(s)}
	case k < 24:
		seed := rapid.SampledFrom(c35SpecExamples).Draw(t, "seed")
		other := rapid.SampledFrom(c35SpecExamples).Draw(t, "other")
		return c35Case{Kind: "spec-mutant", Src: vs.B(c35Mutate(t, seed, other))}
	default:
		// long repetitions of one construct: nesting depth and delimiter-stack length
		unit := c35Pick(t, "unit", "[", "![", "*", "_", "*a ", "_a ", "**a", "`", "> ", "- ", "1. ", "<", "\\", "&", "[a](", "](", "(", "[]", "*_", "<a ", "<!--", "[![", "a*_", "\n", "> - ", "```\n", "#", "&#", "<a href=\"", "  \n")
		n := rapid.SampledFrom([]int{30, 100, 300, 1000}).Draw(t, "rep")
		tail := c35Pick(t, "tail", "", "]", "](x)", "*", "_", "`", ">", ")", "\n", "a")
		return c35Case{Kind: "big", Src: vs.B(strings.Repeat(unit, n) + strings.Repeat(tail, rapid.SampledFrom([]int{0, 1, n}).Draw(t, "tailrep")))}
	}
}

func c35CheckTotal(c c35Case) error {
	src := string(c.Src)
	out := md.RenderString(src, &md.HTMLCodec{}) // a panic is caught by the harness; a hang by its watchdog
	if utf8.ValidString(src) && !utf8.ValidString(out) {
		return fmt.Errorf("rendering valid UTF-8 produced invalid UTF-8\ninput:  %q\noutput: %q", src, out)
	}
	var viaRender md.HTMLCodec
	md.Render(src, &viaRender)
	if viaRender.String() != out {
		return fmt.Errorf("md.Render and md.RenderString disagree (rendering is not a function of the input)\ninput: %q", src)
	}
	return nil
}

func init() {
	vs.Register(vs.Prop[c35Case]{
		Name:  "C35/total",
		Rule:  "arbitrary inputs: raw bytes and hostile atoms (tabs, CR, NUL, C0, invalid UTF-8), Markdown token soup mixed with hostile atoms, grammar documents with byte-level damage, mutated spec examples, and (4%) 30-1000-fold repetitions of one nesting/delimiter construct; rendering must return (panic = violation, watchdog 120 s for inputs that take < 100 ms); non-trivial = input contains a Markdown metacharacter",
		Gen:   c35GenBytes,
		Check: c35CheckTotal,
		Class: func(c c35Case) (string, bool) {
			s := string(c.Src)
			cl := c.Kind
			switch {
			case !utf8.ValidString(s):
				cl += "/invalid-utf8"
			case strings.ContainsAny(s, "\t\r\x00"):
				cl += "/tab-cr-nul"
			}
			return cl, strings.ContainsAny(s, "*_[]`<>&\\#-+!()~")
		},
		Quick: 6000, Thorough: 100000,
		Timeout: 120 * time.Second,
	})
}
