package props

// Generated from /repo/pkg/md/testdata/fuzz/*: the checked-in crashers of the
// upstream fuzz targets (Go fuzz corpus v1 files), used as seeds by C36.

type c36Seed struct {
	Src string
	W   int
}

var c36FuzzCorpus = []c36Seed{
	{"[](<>(0))", 0}, // FmtPreservesHTMLRender/09165d96
	{"<&@0>", 0},     // FmtPreservesHTMLRender/0d768707
	{"999999990)\n0)\n0)\n0)\n0)\n0)\n0)\n0)\n0)\n0)\n0)", 0}, // FmtPreservesHTMLRender/17c530b6
	{"\\ \n0", 0},                        // FmtPreservesHTMLRender/2b697046
	{"[]( <0)", 0},                       // FmtPreservesHTMLRender/2ced6958
	{"* ```\n0", 0},                      // FmtPreservesHTMLRender/2ec9c489
	{"&#32;***", 0},                      // FmtPreservesHTMLRender/334ff8e8
	{"_0&#10;_", 0},                      // FmtPreservesHTMLRender/3463752f
	{"*\n+ ***", 0},                      // FmtPreservesHTMLRender/4310d034
	{">\\---", 0},                        // FmtPreservesHTMLRender/43d96cdf
	{"*   --", 0},                        // FmtPreservesHTMLRender/45f94924
	{"_00*0*_", 0},                       // FmtPreservesHTMLRender/46d00237
	{"- - - *", 0},                       // FmtPreservesHTMLRender/49518562
	{"*\n   <A>", 0},                     // FmtPreservesHTMLRender/49ef19e3
	{"&#0;*`0`*", 0},                     // FmtPreservesHTMLRender/51e230c8
	{"*0\n    ***\n0*", 0},               // FmtPreservesHTMLRender/594ea6c0
	{"0\n    <td\nA0>", 0},               // FmtPreservesHTMLRender/5e0c9718
	{"_______0__!!!!!!!!!!!!!__!___", 0}, // FmtPreservesHTMLRender/5fb0a2c3
	{"[](\\<)", 0},                       // FmtPreservesHTMLRender/6a6981e2
	{"*0!*&#0;", 0},                      // FmtPreservesHTMLRender/6ed9c798
	{"*!00*\xb1", 0},                     // FmtPreservesHTMLRender/714ffe65
	{"00000000000000000000000000000000 _0000_*0*", 0}, // FmtPreservesHTMLRender/722391ce
	{"<0\\@0>", 0},              // FmtPreservesHTMLRender/7425c53a
	{"[](0 (\n&gt;))", 0},       // FmtPreservesHTMLRender/763096c0
	{"\t~~~", 0},                // FmtPreservesHTMLRender/77f51992
	{"*![*]()", 0},              // FmtPreservesHTMLRender/7ef0c074
	{"<A0:&#0;>", 0},            // FmtPreservesHTMLRender/7fd9444d
	{"0\n* 0) 00", 0},           // FmtPreservesHTMLRender/85278dc7
	{"\t<A>", 0},                // FmtPreservesHTMLRender/89d12938
	{"~~~&#XA;", 0},             // FmtPreservesHTMLRender/8becac1c
	{"0000*`*", 0},              // FmtPreservesHTMLRender/8ec2e1d5
	{"<A0:&0(00>", 0},           // FmtPreservesHTMLRender/95f31a02
	{"___ &#10;___", 0},         // FmtPreservesHTMLRender/9e5f2825
	{"[](<\x00>)", 0},           // FmtPreservesHTMLRender/a1b7773f
	{"<A>&#10;0", 0},            // FmtPreservesHTMLRender/aa47fa13
	{"~~~&#9;", 0},              // FmtPreservesHTMLRender/acbe5b22
	{"# 0&#10;0", 0},            // FmtPreservesHTMLRender/adb64ce0
	{">```\n\n>", 0},            // FmtPreservesHTMLRender/c3eb6804
	{"*[0***0]()", 0},           // FmtPreservesHTMLRender/c760e1f8
	{"![ \\\n]()", 0},           // FmtPreservesHTMLRender/ca797b6d
	{"<A A=\"\n<\">", 0},        // FmtPreservesHTMLRender/cd37db7c
	{"~~~\\\\!", 0},             // FmtPreservesHTMLRender/d66d86f8
	{"_0*0_ 0*00", 0},           // FmtPreservesHTMLRender/d845768a
	{"___ &#10;0", 0},           // FmtPreservesHTMLRender/d853024a
	{"* 0)  * --", 0},           // FmtPreservesHTMLRender/d8e4495c
	{"0\n* * * +", 0},           // FmtPreservesHTMLRender/d9dbd4e7
	{"*&#32;*", 0},              // FmtPreservesHTMLRender/de531027
	{"[<A0:>]()", 0},            // FmtPreservesHTMLRender/e6097140
	{"0\n    <!A0>", 0},         // FmtPreservesHTMLRender/eba78016
	{"* * *     0\n      *", 0}, // FmtPreservesHTMLRender/f56cebbc
	{"# \\#", 0},                // FmtPreservesHTMLRender/f5a20581
	{"0&#10;", 0},               // FmtPreservesHTMLRender/fdb49d06
	{"--\n-", 157},              // ReflowFmtPreservesHTMLRenderModuleWhitespaces/179da62c
	{"<A\n A>", 103},            // ReflowFmtPreservesHTMLRenderModuleWhitespaces/467f234f
	{"*\\\n0*", 75},             // ReflowFmtPreservesHTMLRenderModuleWhitespaces/586bc16e
	{"\\\n0", 4},                // ReflowFmtPreservesHTMLRenderModuleWhitespaces/80832a88
	{"[](<  >)", 20},            // ReflowFmtPreservesHTMLRenderModuleWhitespaces/ac5a3d97
	{"0</p>\n0", 80},            // ReflowFmtPreservesHTMLRenderModuleWhitespaces/d0138fd2
	{"000000000 \\\n0", 20},     // ReflowFmtPreservesHTMLRenderModuleWhitespaces/e20e6446
	{"&#X9;", 28},               // ReflowFmtPreservesHTMLRenderModuleWhitespaces/e56bf66c
	{"\x02 00", -118},           // ReflowFmtResultFitsInWidth/4addab28
	{"\\# 000", 5},              // ReflowFmtResultFitsInWidth/c5523be8
	{"\\\n&#9;", 17},            // ReflowFmtResultIsUnchangedUnderFmt/1f26a323
}
