package props

// C36 The Markdown formatter preserves meaning and is idempotent.
//
// The relations of the upstream fuzz targets (pkg/md/fmt_test.go), re-implemented
// with the same documented skips (invalid UTF-8, tabs, FmtCodec.Unsupported(),
// and for the width relation inputs with heading/code/HTML blocks):
//
//   C36/preserves  w = 0:  HTML(fmt(x)) == HTML(x)   and   fmt(fmt(x)) == fmt(x)
//   C36/reflow     w > 0:  HTML(fmt_w(x)) == HTML(x) modulo white space inside <p>,
//                          fmt(fmt_w(x)) == fmt_w(x), fmt_w(fmt_w(x)) == fmt_w(x)
//                          is NOT required (upstream does not), and every line of
//                          fmt_w(x) that can be broken fits the width.
//
// The meaning of a document is its rendering by md.HTMLCodec (which C35 checks
// against CommonMark independently); the formatter must not change it.

import (
	"fmt"
	"regexp"
	"strings"
	"sync"
	"time"
	"unicode/utf8"

	"pgregory.net/rapid"
	"src.elv.sh/pkg/md"
	"src.elv.sh/pkg/wcwidth"
	"verif/vs"
)

type c36Case struct {
	Kind string `json:"kind"` // spec | corpus | corpus-mutant | spec-mutant | grammar | soup
	Src  vs.B   `json:"src"`
	W    int    `json:"w"`
}

// supplemental cases of the upstream fmt_test.go (escaping decisions)
var c36Supplemental = []string{
	"~~~ ~`\n~~~", "*&#32;x*", "*x&#32;*", "&#65;*!*", "*!*&#65;", "*&#32;*", `\![a](b)`, `[a](b ('"))`, `[a](b "\"''()")`, `[a](b '\'""()')`,
	`[a](b (\(''""))`, `[a](<&NewLine;>)`, "&#32;foo", "foo&#32;",
	// supplemental HTML cases of testutils_test.go
	"# title {#id}", "- ```\n  a\n\n  ```\n", "> <pre>\n\na\n", "- <pre>\n a\n", "> a\n>> b\n", ">> a\n>\n> b\n", "- \n  \na\n", "a\n- -\n", "a\n- 2.\n", `a*$*`,
	`[a](\&gt;)`, `[a](b (\&gt;))`, `[a](http://( "b")`, `[a](b (()))`, `[a](http://b?c&d)`, "![a\\\nb](c.png)\n", "![a <a></a>](b.png)", `<http://&gt;>`, `a<`, `a<!--`, "a  \n",
}

var c36SeedsOnce struct {
	sync.Once
	spec   []string
	corpus []c36Seed
}

// seeds the upstream targets would not skip (valid UTF-8, no tab)
func c36Seeds() ([]string, []c36Seed) {
	c36SeedsOnce.Do(func() {
		ok := func(s string) bool { return utf8.ValidString(s) && !strings.Contains(s, "\t") }
		for _, s := range append(append([]string(nil), c35SpecExamples...), c36Supplemental...) {
			if ok(s) {
				c36SeedsOnce.spec = append(c36SeedsOnce.spec, s)
			}
		}
		for _, s := range c36FuzzCorpus {
			if ok(s.Src) {
				c36SeedsOnce.corpus = append(c36SeedsOnce.corpus, s)
			}
		}
	})
	return c36SeedsOnce.spec, c36SeedsOnce.corpus
}

func c36GenSrc(t *rapid.T) (kind, src string, seedW int) {
	spec, corpus := c36Seeds()
	seeds := func() []string { return spec }
	switch k := c35Uniform(t, "kind", 20); {
	case k < 2:
		return "spec", rapid.SampledFrom(seeds()).Draw(t, "spec"), 0
	case k < 4:
		sd := rapid.SampledFrom(corpus).Draw(t, "corpus")
		return "corpus", sd.Src, sd.W
	case k < 7:
		seed := rapid.SampledFrom(corpus).Draw(t, "seed").Src
		other := rapid.SampledFrom(corpus).Draw(t, "other").Src
		return "corpus-mutant", c35Mutate(t, seed, other), 0
	case k < 11:
		all := seeds()
		seed := rapid.SampledFrom(all).Draw(t, "seed")
		other := rapid.SampledFrom(all).Draw(t, "other")
		return "spec-mutant", c35Mutate(t, seed, other), 0
	case k < 16:
		return "grammar", c35Doc(t), 0
	case k < 17:
		return "lookalike", c36Lookalike(t), 0
	case k < 18:
		return "fences", c36Fences(t), 0
	default:
		return "soup", c35Soup(t), 0
	}
}

// c36Fences: fenced code blocks for which the formatter has to choose the fence
// itself: info strings with a backquote (only a tilde fence can carry them) or
// with tildes, and content lines that are runs of backquotes or tildes shorter
// than, as long as and longer than the opening fence.
func c36Fences(t *rapid.T) string {
	ch := rapid.SampledFrom([]string{"`", "~", "~"}).Draw(t, "fencechar")
	n := rapid.IntRange(3, 6).Draw(t, "fencelen")
	info := rapid.SampledFrom([]string{"", "", "go", "a`b", "`", "x ``` y", "a``", "a~b", "~", "~~~", "a ~~~~ b", "é", "a\\`b", "&#96;"}).Draw(t, "info")
	if strings.Contains(info, "`") {
		ch = "~"
	}
	prefix := rapid.SampledFrom([]string{"", "", "", "> ", "- ", "1. "}).Draw(t, "container")
	cont := strings.Repeat(" ", len(prefix))
	if prefix == "> " {
		cont = "> "
	}
	var sb strings.Builder
	sb.WriteString(prefix + strings.Repeat(ch, n))
	if info != "" {
		sb.WriteString(rapid.SampledFrom([]string{" ", "", "  "}).Draw(t, "infosp") + info)
	}
	sb.WriteString("\n")
	for i, k := 0, rapid.IntRange(0, 4).Draw(t, "ncontent"); i < k; i++ {
		var l string
		switch rapid.IntRange(0, 5).Draw(t, "line") {
		case 0:
			l = "code"
		case 1:
			l = ""
		default:
			// never a valid closing fence of the block being written: shorter than
			// the opening, of the other character, or followed by text
			rc := rapid.SampledFrom([]string{"`", "~"}).Draw(t, "runchar")
			rl := rapid.IntRange(1, 7).Draw(t, "runlen")
			l = strings.Repeat(rc, rl)
			if rc == ch && rl >= n {
				l += rapid.SampledFrom([]string{" x", "x", " " + rc}).Draw(t, "after")
			} else if rapid.IntRange(0, 3).Draw(t, "after?") == 0 {
				l += " y"
			}
			l = rapid.SampledFrom([]string{"", "", " ", "   ", "    "}).Draw(t, "lineindent") + l
		}
		if l == "" {
			sb.WriteString(strings.TrimRight(cont, " ") + "\n")
		} else {
			sb.WriteString(cont + l + "\n")
		}
	}
	if rapid.IntRange(0, 4).Draw(t, "closed") > 0 {
		sb.WriteString(cont + strings.Repeat(ch, n+rapid.IntRange(0, 2).Draw(t, "closeextra")) + "\n")
	}
	if rapid.Bool().Draw(t, "tail") {
		sb.WriteString("\ntail\n")
	}
	return sb.String()
}

// c36Lookalike: paragraphs (optionally inside a quote or list item) whose
// lines begin with text that merely looks like a block start - escaped in the
// source or written with a character reference - which the formatter has to
// keep harmless on every line, not only the first.
func c36Lookalike(t *rapid.T) string {
	starts := []string{`1\. `, `01\. `, `001\) `, `0\. `, `10\. `, `1\) `, `&#49;. `, `&#48;1. `, `0&#49;) `, `\- `, `\+ `, `\* `, `\# `, `\## `, `\> `,
		`\-\-\-`, `\=\=\=`, `\~~~`, "\\```", `\<div>`, `&lt;div>`, `\    x`, `-x `, `+`, `-`, `1.`, `01.x `, `999999999\. `, `1234567890. `}
	words := []string{"a", "bb", "ccc", "dddd", "*e*", "`f`", "1", "01", "-", "+", "#", ">", "x."}
	var sb strings.Builder
	prefix := rapid.SampledFrom([]string{"", "", "", "> ", "- ", "1. ", "> - "}).Draw(t, "container")
	cont := strings.Repeat(" ", len(prefix))
	if strings.HasPrefix(prefix, ">") {
		cont = "> " + strings.Repeat(" ", len(prefix)-2)
	}
	n := rapid.IntRange(1, 4).Draw(t, "lines")
	for i := 0; i < n; i++ {
		if i == 0 {
			sb.WriteString(prefix)
		} else {
			sb.WriteString(cont)
		}
		if i > 0 || rapid.Bool().Draw(t, "firsttoo") {
			if rapid.IntRange(0, 3).Draw(t, "?lookalike") > 0 {
				sb.WriteString(rapid.SampledFrom(starts).Draw(t, "start"))
			}
		}
		for j := rapid.IntRange(1, 4).Draw(t, "nwords"); j > 0; j-- {
			sb.WriteString(rapid.SampledFrom(words).Draw(t, "word"))
			if j > 1 {
				sb.WriteString(" ")
			}
		}
		sb.WriteString("\n")
	}
	return sb.String()
}

// c36Skip returns the upstream skip reason ("" = in domain) and the formatted text.
func c36Format(src string, w int) (formatted, skip string) {
	if !utf8.ValidString(src) {
		return "", "input is not valid UTF-8"
	}
	if strings.Contains(src, "\t") {
		return "", "input contains tab"
	}
	codec := &md.FmtCodec{Width: w}
	formatted = md.RenderString(src, codec)
	if u := codec.Unsupported(); u != nil {
		switch {
		case u.NestedEmphasisOrStrongEmphasis:
			return formatted, "nested emphasis (documented as unsupported)"
		default:
			return formatted, "consecutive emphasis (documented as unsupported)"
		}
	}
	return formatted, ""
}

func c36HTML(s string) string { return md.RenderString(s, &md.HTMLCodec{}) }

var (
	c36Paragraph         = regexp.MustCompile(`(?s)<p>.*?</p>`)
	c36WhitespaceRun     = regexp.MustCompile(`[ \t\n]+`)
	c36BrWithWhitespaces = regexp.MustCompile(`[ \t\n]*<br />[ \t\n]*`)
	// all markers FmtCodec can write at the start of a line
	c36Markers  = regexp.MustCompile(`^ *(?:(?:[-*>]|[0-9]{1,9}[.)]) *)*`)
	c36Link     = regexp.MustCompile(`\[.*\]\(.*\)`)
	c36CodeSpan = regexp.MustCompile("`.*`")
)

// c36Coalesce makes white space inside paragraphs insignificant.
func c36Coalesce(html string) string {
	return c36Paragraph.ReplaceAllStringFunc(html, func(p string) string {
		body := strings.Trim(p[3:len(p)-4], " \t\n")
		body = c36WhitespaceRun.ReplaceAllLiteralString(body, " ")
		body = c36BrWithWhitespaces.ReplaceAllLiteralString(body, "<br />")
		return "<p>" + body + "</p>"
	})
}

func c36CheckPreserves(c c36Case) error {
	src := string(c.Src)
	formatted, skip := c36Format(src, 0)
	if skip != "" {
		vs.Excluded(skip)
		return nil
	}
	if known := c36KnownShape(src, formatted, 0); known != "" && c.Kind != "known" {
		vs.Excluded(known)
		return nil
	}
	want, got := c36HTML(src), c36HTML(formatted)
	if want != got {
		return fmt.Errorf("formatting changed the meaning: HTML(fmt(x)) != HTML(x)\ninput:     %q\nformatted: %q\nHTML(x):      %q\nHTML(fmt(x)): %q", src, formatted, want, got)
	}
	again := md.RenderString(formatted, &md.FmtCodec{})
	if again != formatted {
		return fmt.Errorf("formatting is not idempotent: fmt(fmt(x)) != fmt(x)\ninput:       %q\nfmt(x):      %q\nfmt(fmt(x)): %q", src, formatted, again)
	}
	return nil
}

func c36CheckReflow(c c36Case) error {
	src := string(c.Src)
	w := c.W
	reflowed, skip := c36Format(src, w)
	if skip != "" {
		vs.Excluded(skip)
		return nil
	}
	if known := c36KnownShape(src, reflowed, w); known != "" && c.Kind != "known" {
		vs.Excluded(known)
		return nil
	}
	// (1) same HTML up to white space inside paragraphs
	if strings.Contains(src, "<p>") || strings.Contains(src, "</p>") {
		vs.Excluded("markdown contains <p> or </p> (upstream skip of the modulo-whitespace relation)")
	} else {
		want, got := c36Coalesce(c36HTML(src)), c36Coalesce(c36HTML(reflowed))
		if want != got {
			return fmt.Errorf("reflow to width %d changed the meaning: HTML differs beyond white space inside paragraphs\ninput:    %q\nreflowed: %q\nHTML(x):       %q\nHTML(fmt_w(x)): %q", w, src, reflowed, want, got)
		}
	}
	// (2) the reflowed text is a fixed point of the plain formatter
	again := md.RenderString(reflowed, &md.FmtCodec{})
	if again != reflowed {
		return fmt.Errorf("reflowed output (width %d) is changed by formatting again\ninput:         %q\nfmt_w(x):      %q\nfmt(fmt_w(x)): %q", w, src, reflowed, again)
	}
	// (3) every breakable line fits
	if w <= 0 {
		return nil
	}
	var trace md.TraceCodec
	md.Render(src, &trace)
	for _, op := range trace.Ops() {
		switch op.Type {
		case md.OpHeading, md.OpCodeBlock, md.OpHTMLBlock:
			vs.Excluded("width relation: input contains a heading, code block or HTML block (upstream skip)")
			return nil
		}
	}
	for _, line := range strings.Split(reflowed, "\n") {
		if wcwidth.Of(line) <= w {
			continue
		}
		content := line[len(c36Markers.FindString(line)):]
		switch {
		case !strings.Contains(content, " "):
		case strings.Contains(content, "<"):
		case c36Link.MatchString(content):
		case c36CodeSpan.MatchString(content):
		default:
			return fmt.Errorf("reflow to width %d left a breakable line of width %d: %q\ninput:    %q\nreflowed: %q", w, wcwidth.Of(line), line, src, reflowed)
		}
	}
	return nil
}

// c36KnownShape recognises the exact shapes of the open findings of C36.
func c36KnownShape(src, formatted string, w int) string {
	if vs.KnownOpen("C36:start-of-line-after-escaped-newline") && (c36EscapedNewlineShape(src) || c36EscapedNewlineShape(formatted)) {
		return "known finding C36:start-of-line-after-escaped-newline"
	}
	if vs.KnownOpen("C36:indented-html-block-absorbed-by-short-marker-item") && (c36ShortMarkerShape(src) || c36ShortMarkerShape(formatted)) {
		return "known finding C36:indented-html-block-absorbed-by-short-marker-item"
	}
	if vs.KnownOpen("C36:marker-only-line-is-thematic-break") && (c36MarkerLineShape(src) || c36MarkerLineShape(formatted)) {
		return "known finding C36:marker-only-line-is-thematic-break"
	}
	return ""
}

// c36MarkerLineShape: three or more nested bullet items whose innermost first
// block is an HTML block with leading spaces: FmtCodec writes the markers alone
// on a line ("-   -   -"), which is a thematic break.
func c36MarkerLineShape(text string) bool {
	var trace md.TraceCodec
	md.Render(text, &trace)
	ops := trace.Ops()
	depth := 0
	for i, op := range ops {
		switch op.Type {
		case md.OpBulletListStart:
			depth++
		case md.OpBulletListEnd:
			depth--
		case md.OpHTMLBlock:
			if depth >= 3 && i > 0 && ops[i-1].Type == md.OpListItemStart && strings.HasPrefix(op.Lines[0], " ") {
				return true
			}
		}
	}
	return false
}

// c36ShortMarkerShape: a list item whose first block is an HTML block with
// leading spaces (FmtCodec then writes the marker alone on a line, which makes
// the item's content indentation 2-3 columns instead of 4), and a later HTML
// block with leading spaces, which can then fall inside that item.
func c36ShortMarkerShape(text string) bool {
	var trace md.TraceCodec
	md.Render(text, &trace)
	ops := trace.Ops()
	short := false
	for i, op := range ops {
		if op.Type != md.OpHTMLBlock {
			continue
		}
		if short {
			for _, l := range op.Lines {
				if strings.HasPrefix(l, " ") {
					return true
				}
			}
		}
		if i > 0 && ops[i-1].Type == md.OpListItemStart && strings.HasPrefix(op.Lines[0], " ") {
			short = true
		}
	}
	return false
}

// c36EscapedNewlineShape: a paragraph in which raw HTML follows a newline that
// FmtCodec writes as "&NewLine;" (a newline at the very start of the paragraph,
// or the newline after a leading one-line raw HTML element); writeSegmentsParagraph
// still treats that raw HTML as being at the start of a line.
func c36EscapedNewlineShape(text string) bool {
	var trace md.TraceCodec
	md.Render(text, &trace)
	for _, op := range trace.Ops() {
		if op.Type != md.OpParagraph {
			continue
		}
		c := op.Content
		if len(c) >= 2 && c[0].Type == md.OpNewLine && c[1].Type == md.OpRawHTML {
			return true
		}
		if len(c) >= 3 && c[0].Type == md.OpRawHTML && !strings.Contains(c[0].Text, "\n") && c[1].Type == md.OpNewLine && c[2].Type == md.OpRawHTML {
			return true
		}
	}
	return false
}

func c36Class(c c36Case) (string, bool) {
	src := string(c.Src)
	formatted, skip := c36Format(src, c.W)
	if skip != "" {
		if strings.Contains(skip, "emphasis") {
			skip = "unsupported emphasis"
		}
		return "skip/" + skip, false
	}
	changed := "unchanged"
	if formatted != src {
		changed = "rewritten"
	}
	return c.Kind + "/" + changed, strings.ContainsAny(src, "*_[`<&\\#>-+~0123456789")
}

func init() {
	vs.Register(vs.Prop[c36Case]{
		Name: "C36/preserves",
		Rule: "inputs: CommonMark spec examples and the supplemental upstream cases (10%), the checked-in fuzz corpus verbatim (10%) and mutated (15%), mutated spec examples (20%), C35's grammar documents (30%) and token soup (15%); skipped like upstream: invalid UTF-8, tabs, FmtCodec.Unsupported(); non-trivial = contains Markdown metacharacters; class says whether the formatter rewrote the text",
		Gen: func(t *rapid.T) c36Case {
			k, s, _ := c36GenSrc(t)
			return c36Case{Kind: k, Src: vs.B(s)}
		},
		Check: c36CheckPreserves,
		Class: c36Class,
		Quick: 22000, Thorough: 400000,
		Timeout: 30 * time.Second,
		Known: []vs.Known[c36Case]{
			{Key: "C36:start-of-line-after-escaped-newline", Case: c36Case{Kind: "known", Src: "&NewLine;<div>"}},
			{Key: "C36:marker-only-line-is-thematic-break", Case: c36Case{Kind: "known", Src: "+ + +\n       <A>\n"}},
			{Key: "C36:indented-html-block-absorbed-by-short-marker-item", Case: c36Case{Kind: "known", Src: "  -\n     <b>\n\n   <c>\n"}},
			{Key: "C36:heading-attribute-lookalike-unescaped", Case: c36Case{Kind: "known", Src: "# a \\{#x}"}},
			{Key: "C36:heading-attribute-lookalike-unescaped", Case: c36Case{Kind: "known", Src: "# `a {`b}"}},
			{Key: "C36:del-in-link-destination-written-bare", Case: c36Case{Kind: "known", Src: "[a](<x\x7fy>)"}},
			{Key: "C36:del-in-link-destination-written-bare", Case: c36Case{Kind: "known", Src: "![a](<\x7f> \"t\")"}},
		},
	})
	vs.Register(vs.Prop[c36Case]{
		Name: "C36/reflow",
		Rule: "the same inputs with a width drawn from 1..100 biased to small values and to the upstream widths 20/51/80 (5% widths <= 0: reflow off); the three upstream reflow relations with their skips; non-trivial = contains Markdown metacharacters and a space",
		Gen: func(t *rapid.T) c36Case {
			k, s, seedW := c36GenSrc(t)
			var w int
			switch wk := c35Uniform(t, "wk", 20); {
			case wk < 1:
				w = rapid.IntRange(-3, 0).Draw(t, "w0")
			case wk < 8:
				w = rapid.IntRange(1, 12).Draw(t, "wsmall")
			case wk < 11:
				w = rapid.SampledFrom([]int{20, 51, 80}).Draw(t, "wup")
			default:
				w = rapid.IntRange(1, 100).Draw(t, "w")
			}
			if seedW != 0 && c35Chance(t, "seedw", 50) {
				w = seedW // the width the upstream fuzzer found the crasher with
			}
			return c36Case{Kind: k, Src: vs.B(s), W: w}
		},
		Check: c36CheckReflow,
		Class: func(c c36Case) (string, bool) {
			cl, nt := c36Class(c)
			wc := "w>12"
			switch {
			case c.W <= 0:
				wc = "w<=0"
			case c.W <= 12:
				wc = "w<=12"
			}
			return cl + "/" + wc, nt && strings.Contains(string(c.Src), " ")
		},
		Quick: 22000, Thorough: 400000,
		Timeout: 30 * time.Second,
		Known: []vs.Known[c36Case]{
			{Key: "C36:start-of-line-after-escaped-newline", Case: c36Case{Kind: "known", Src: "* &#32;</div>***\n", W: 26}},
		},
	})
}
