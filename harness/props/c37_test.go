package props

// C37 Error positions point at the right lines and columns.
//
// Oracle: an independent byte scan of the source (c37Model) gives, for a range
// [from,to]: the 1-based line and byte column of from; the range end after
// dropping one trailing newline; the line/column of the last byte; and the text
// of the lines containing the range. For planted errors the expected line and
// column additionally come from the construction of the source (line index and
// bytes written before the culprit), not from any scan.
//
//   C37/context        diag.NewContext on random multi-line sources x ranges
//   C37/parse-error    contexts inside real parse errors: of byte-mutated
//                      programs (self-consistency with the source) and of a
//                      stray ')' / unterminated string planted at a known place
//   C37/compile-error  compilation errors planted at a known line and column
//   C37/traceback      exception stack traces of `fail`, index errors and calls
//                      through functions planted at known lines and columns
//
// UNSPEC: when the last byte of the range (after dropping one trailing
// newline) is itself a newline, the statement's "identify its last byte" can be
// read as that newline's own line and column or as column 0 of the following
// line (what "one less than the column after the end" gives); both are accepted.

import (
	"fmt"
	"strings"
	"sync"
	"time"

	"pgregory.net/rapid"
	"src.elv.sh/pkg/diag"
	"src.elv.sh/pkg/eval"
	"src.elv.sh/pkg/parse"
	"verif/elv"
	"verif/vs"
)

type c37Want struct {
	startLine, startCol int
	endLine, endCol     int // "column after the end, minus one" reading
	altLine, altCol     int // "position of the last byte" reading (differs only if that byte is a newline)
	hasAlt              bool
	head, body, tail    string
	stripped            bool
}

// c37Model computes the expected context by scanning bytes.
func c37Model(src string, from, to int) c37Want {
	var w c37Want
	line, lineStart := 1, 0
	for i := 0; i < from; i++ {
		if src[i] == '\n' {
			line++
			lineStart = i + 1
		}
	}
	w.startLine, w.startCol = line, from-lineStart+1
	w.head = src[lineStart:from]
	end := to
	if end > from && src[end-1] == '\n' {
		end--
		w.stripped = true
	}
	w.body = src[from:end]
	prevLineStart := lineStart
	for i := from; i < end; i++ {
		if src[i] == '\n' {
			line++
			prevLineStart = lineStart
			lineStart = i + 1
		}
	}
	w.endLine, w.endCol = line, end-lineStart
	if end > from && src[end-1] == '\n' {
		// the last byte is a newline: it sits at the end of the previous line
		w.hasAlt = true
		w.altLine, w.altCol = line-1, (end-1)-prevLineStart+1
	}
	lineEnd := end
	for lineEnd < len(src) && src[lineEnd] != '\n' {
		lineEnd++
	}
	if !w.stripped {
		w.tail = src[to:lineEnd]
	}
	return w
}

type c37Tag struct{}

func (c37Tag) ErrorTag() string { return "verif error" }

// c37CheckContext compares a context with the model for its own range.
func c37CheckContext(c *diag.Context, name, src string, what string) error {
	from, to := c.From, c.To
	if from < 0 || from > to || to > len(src) {
		return fmt.Errorf("%s: context range [%d,%d] is not inside the source of length %d", what, from, to, len(src))
	}
	w := c37Model(src, from, to)
	if c.Name != name {
		return fmt.Errorf("%s: context name %q, want %q", what, c.Name, name)
	}
	if c.StartLine != w.startLine || c.StartCol != w.startCol {
		return fmt.Errorf("%s: range [%d,%d] of %q starts at line %d column %d, reported %d:%d", what, from, to, src, w.startLine, w.startCol, c.StartLine, c.StartCol)
	}
	endOK := c.EndLine == w.endLine && c.EndCol == w.endCol
	if !endOK && w.hasAlt {
		endOK = c.EndLine == w.altLine && c.EndCol == w.altCol
	}
	if !endOK {
		return fmt.Errorf("%s: range [%d,%d] of %q ends (inclusive, one trailing newline dropped) at line %d column %d, reported %d:%d", what, from, to, src, w.endLine, w.endCol, c.EndLine, c.EndCol)
	}
	if c.Body != w.body {
		return fmt.Errorf("%s: range [%d,%d] of %q: body %q, want %q", what, from, to, src, c.Body, w.body)
	}
	if c.Head != w.head {
		return fmt.Errorf("%s: range [%d,%d] of %q: head %q, want the start of the first line %q", what, from, to, src, c.Head, w.head)
	}
	if c.Tail != w.tail {
		return fmt.Errorf("%s: range [%d,%d] of %q: tail %q, want the rest of the last line %q", what, from, to, src, c.Tail, w.tail)
	}
	// The reported position text (documented in Context.Show: "foo.elv:12:7-11",
	// "foo.elv:12:1-13:5", and a bare start position for zero-width ranges).
	var desc string
	switch {
	case c.StartLine == c.EndLine && c.EndCol < c.StartCol:
		desc = fmt.Sprintf("%s:%d:%d", name, c.StartLine, c.StartCol)
	case c.StartLine == c.EndLine:
		desc = fmt.Sprintf("%s:%d:%d-%d", name, c.StartLine, c.StartCol, c.EndCol)
	default:
		desc = fmt.Sprintf("%s:%d:%d-%d:%d", name, c.StartLine, c.StartCol, c.EndLine, c.EndCol)
	}
	e := &diag.Error[c37Tag]{Message: "MSG", Context: *c}
	if got, want := e.Error(), "verif error: "+desc+": MSG"; got != want {
		return fmt.Errorf("%s: range [%d,%d] of %q is reported as %q, want %q", what, from, to, src, got, want)
	}
	// The shown context is the text of the lines containing the range, with the
	// body marked.
	shown := c.Show("")
	shown = strings.ReplaceAll(shown, diag.ContextBodyStartMarker, "")
	shown = strings.ReplaceAll(shown, diag.ContextBodyEndMarker, "")
	lines := w.head + w.body + w.tail
	var wantShown string
	if c.StartLine == c.EndLine {
		wantShown = desc + ": " + lines
	} else {
		wantShown = desc + ":\n  " + strings.ReplaceAll(lines, "\n", "\n  ")
	}
	if !strings.Contains(src, "\033") && shown != wantShown {
		return fmt.Errorf("%s: range [%d,%d] of %q is shown as %q, want %q", what, from, to, src, shown, wantShown)
	}
	return nil
}

// ---- C37/context --------------------------------------------------------------

type c37Ctx struct {
	Src  vs.B `json:"src"`
	From int  `json:"from"`
	To   int  `json:"to"`
}

var c37LineAtoms = []string{"a", "bc", " ", "\t", "é", "世界", "\U0001F600", "$x", "'q'", "#", "\r", "x y", "0", "́", "\xff", "[", ")"}

func c37GenSource(t *rapid.T) string {
	var sb strings.Builder
	n := 1 + c01SrcUniform(t, 6)
	if c01SrcUniform(t, 50) == 0 {
		n = 0 // the empty source, rarely
	}
	for i := 0; i < n; i++ {
		for j, m := 0, c01SrcUniform(t, 5); j < m; j++ {
			sb.WriteString(c37LineAtoms[c01SrcUniform(t, len(c37LineAtoms))])
		}
		if i < n-1 || c01SrcUniform(t, 2) == 1 {
			sb.WriteString("\n")
		}
	}
	return sb.String()
}

// c37Positions lists the interesting offsets of src: line starts, line ends,
// just after newlines, both ends.
func c37Positions(src string) []int {
	ps := []int{0, len(src)}
	for i := 0; i < len(src); i++ {
		if src[i] == '\n' {
			ps = append(ps, i, i+1)
		}
	}
	return ps
}

func c37GenCtx(t *rapid.T) c37Ctx {
	src := c37GenSource(t)
	// positions are drawn with the nearly uniform helper: rapid's own integer
	// generators are so biased to 0 that half of all ranges would be [0,0]
	pos := func() int {
		if c01SrcUniform(t, 2) == 0 {
			ps := c37Positions(src)
			return ps[c01SrcUniform(t, len(ps))]
		}
		return c01SrcUniform(t, len(src)+1)
	}
	a, b := pos(), pos()
	switch c01SrcUniform(t, 8) {
	case 0:
		b = a // empty range
	case 1:
		// range ending right after a newline
		if i := strings.IndexByte(src[a:], '\n'); i >= 0 {
			b = a + i + 1
		}
	}
	if a > b {
		a, b = b, a
	}
	return c37Ctx{vs.B(src), a, b}
}

func c37ClassRange(src string, from, to int) string {
	body := src[from:to]
	switch {
	case from == to && (from == len(src) || src[from] == '\n') && (from == 0 || src[from-1] == '\n'):
		return "empty-range/empty-line"
	case from == to:
		return "empty-range"
	case body == "\n":
		return "only-newline"
	case strings.HasSuffix(body, "\n\n"):
		return "ends-after-2-newlines"
	case strings.HasSuffix(body, "\n") && strings.Count(body, "\n") > 1:
		return "multi-line/ends-after-newline"
	case strings.HasSuffix(body, "\n"):
		return "one-line/ends-after-newline"
	case strings.Contains(body, "\n"):
		return "multi-line"
	}
	return "one-line"
}

func init() {
	vs.Register(vs.Prop[c37Ctx]{
		Name: "C37/context",
		Rule: "sources of 0..6 lines (empty lines, with/without trailing newline, CR, multibyte, invalid bytes) x ranges whose ends are drawn half from line boundaries (line start, line end, just after a newline, text ends) and half uniformly, with forced empty ranges and ranges ending right after a newline; diag.NewContext vs an independent byte scan, plus the reported position text and the shown lines; non-trivial = source has >= 2 lines",
		Gen:  c37GenCtx,
		Check: func(c c37Ctx) error {
			src := string(c.Src)
			ctx := diag.NewContext("name.elv", src, diag.Ranging{From: c.From, To: c.To})
			if ctx.From != c.From || ctx.To != c.To {
				return fmt.Errorf("NewContext(%q, [%d,%d]) has range [%d,%d]", src, c.From, c.To, ctx.From, ctx.To)
			}
			return c37CheckContext(ctx, "name.elv", src, "NewContext")
		},
		Class: func(c c37Ctx) (string, bool) {
			return c37ClassRange(string(c.Src), c.From, c.To), strings.Count(string(c.Src), "\n") >= 1
		},
		Quick: 30000, Thorough: 400000, FuzzSecs: 30,
		Timeout: 20 * time.Second,
	})
}

// ---- planted errors -------------------------------------------------------------

// c37Planted is a program with a culprit at a known place. Line and Col are
// recorded by the generator while it lays the text out (0-based line index and
// number of bytes before the culprit on its line); Off is the resulting offset.
type c37Planted struct {
	Kind    string `json:"kind"`
	Src     string `json:"src"`
	Off     int    `json:"off"`
	Line    int    `json:"line"`
	Col     int    `json:"col"`
	Culprit string `json:"culprit"` // the text the context must cover (after dropping one trailing newline)
	Len     int    `json:"len"`     // length of the reported range
	Outer   string `json:"outer,omitempty"`   // second culprit (the failing form inside the called function)
	OutOff  int    `json:"outoff,omitempty"`  // its offset, 0-based line index and bytes before it on its line
	OutLine int    `json:"outline,omitempty"`
	OutCol  int    `json:"outcol,omitempty"`
}

var c37Fillers = [][]string{
	{"nop a b"}, {""}, {"# comment é"}, {"nop 'é世' \"x\""}, {"  nop (put a)"}, {"\tnop $nil"}, {"if $true { nop }"},
	{"nop {", "  nop x", "}"}, {"nop 'a", "b'"}, {"nop [", "  x", "  y ]"}, {"nop \U0001F600 ; nop"}, {"nop a\r"}, {"nop [&k=v]; nop ^", "  continued"}, {"  "},
}

var c37Prefixes = []string{"", "", "  ", "\t", "nop a; ", "nop 'é世'; ", "nop \U0001F600;", "nop (put x);  "}

// c37Layout writes filler lines, then prefix+culprit(+suffix) on a fresh line, then more fillers.
func c37Layout(t *rapid.T, culprit, suffix string) (src string, off, line, col int) {
	var lines []string
	add := func(label string) {
		for i, n := 0, rapid.IntRange(0, 4).Draw(t, label); i < n; i++ {
			lines = append(lines, rapid.SampledFrom(c37Fillers).Draw(t, "filler")...)
		}
	}
	add("before")
	prefix := rapid.SampledFrom(c37Prefixes).Draw(t, "prefix")
	line, col = len(lines), len(prefix)
	for _, l := range lines {
		off += len(l) + 1
	}
	off += col
	// the culprit may span lines; the suffix continues its last line
	lines = append(lines, strings.Split(prefix+culprit+suffix, "\n")...)
	if suffix == c37Last {
		// the culprit is the last statement and is followed by exactly one newline
		lines[len(lines)-1] = strings.TrimSuffix(lines[len(lines)-1], c37Last)
		return strings.Join(lines, "\n") + "\n", off, line, col
	}
	add("after")
	src = strings.Join(lines, "\n")
	if rapid.Bool().Draw(t, "trailing-newline") {
		src += "\n"
	}
	return src, off, line, col
}

const c37Last = "\x00last"

// c37CheckPlanted checks a context that must cover exactly the planted culprit.
func c37CheckPlanted(ctx *diag.Context, p c37Planted, off int, culprit string, rangeLen int, what string) error {
	if err := c37CheckContext(ctx, "[verif]", p.Src, what); err != nil {
		return err
	}
	if ctx.From != off || ctx.To != off+rangeLen {
		return fmt.Errorf("%s: in %q the reported range is [%d,%d] %q, want [%d,%d] %q", what, p.Src, ctx.From, ctx.To, p.Src[ctx.From:ctx.To], off, off+rangeLen, p.Src[off:off+rangeLen])
	}
	// expected position from the layout
	line, col := p.Line+1, p.Col+1
	if off != p.Off {
		line, col = p.OutLine+1, p.OutCol+1 // the second culprit
	}
	if ctx.StartLine != line || ctx.StartCol != col {
		return fmt.Errorf("%s: culprit %q was laid out at line %d column %d of %q, reported %d:%d", what, culprit, line, col, p.Src, ctx.StartLine, ctx.StartCol)
	}
	nl := strings.Count(culprit, "\n")
	endLine, endCol := line+nl, col+len(culprit)-1
	if nl > 0 {
		endCol = len(culprit) - (strings.LastIndex(culprit, "\n") + 1)
	}
	if ctx.EndLine != endLine || ctx.EndCol != endCol {
		return fmt.Errorf("%s: culprit %q laid out at line %d column %d of %q ends at %d:%d, reported %d:%d", what, culprit, line, col, p.Src, endLine, endCol, ctx.EndLine, ctx.EndCol)
	}
	if ctx.Body != culprit {
		return fmt.Errorf("%s: body %q, want the culprit %q", what, ctx.Body, culprit)
	}
	return nil
}

func c37PlantedClass(p c37Planted) (string, bool) {
	cls := p.Kind
	if strings.Contains(p.Culprit, "\n") {
		cls += "/multi-line"
	}
	if p.Col > 0 {
		cls += "/indented"
	}
	return cls, p.Line > 0
}

// ---- C37/parse-error ------------------------------------------------------------

func c37GenParsePlanted(t *rapid.T) c37Planted {
	switch rapid.IntRange(0, 3).Draw(t, "kind") {
	case 0:
		// a stray closing bracket: the parser stops there and reports it
		c := rapid.SampledFrom([]string{")", "]", "}"}).Draw(t, "bracket")
		src, off, line, col := c37Layout(t, c, rapid.SampledFrom([]string{"", " x", "é"}).Draw(t, "suffix"))
		return c37Planted{Kind: "stray-bracket", Src: src, Off: off, Line: line, Col: col, Culprit: c, Len: 1}
	case 1:
		// an unterminated string: reported at the end of the text (zero width)
		src, _, _, _ := c37Layout(t, "nop", "")
		lead := rapid.SampledFrom([]string{"", "  ", "nop é; "}).Draw(t, "lead")
		str := rapid.SampledFrom([]string{"'abc", "\"a b", "'é\nxy", "\"\n", "'"}).Draw(t, "str")
		if !strings.HasSuffix(src, "\n") {
			src += "\n"
		}
		full := src + lead + "nop " + str
		off := len(full)
		lastNL := strings.LastIndex(full, "\n")
		return c37Planted{Kind: "unterminated-string", Src: full, Off: off, Line: strings.Count(full, "\n"), Col: off - (lastNL + 1), Culprit: "", Len: 0}
	default:
		// arbitrary mutated program: only self-consistency of every reported context
		prog := c01SrcProgram(t, c01SrcCfg{MaxDepth: 2, MaxPipelines: 3, MaxPrimaries: 10})
		m := c01Mutate(t, prog, "put (a\n[b")
		return c37Planted{Kind: "mutated", Src: m, Off: -1}
	}
}

func c37CheckParse(p c37Planted) error {
	_, err := parse.Parse(parse.Source{Name: "[verif]", Code: p.Src}, parse.Config{})
	errs := parse.UnpackErrors(err)
	for i, e := range errs {
		c := e.Context
		if err := c37CheckContext(&c, "[verif]", p.Src, fmt.Sprintf("parse error %d %q", i, e.Message)); err != nil {
			return err
		}
		// what the user sees
		if !strings.Contains(e.Error(), fmt.Sprintf("[verif]:%d:%d", c.StartLine, c.StartCol)) {
			return fmt.Errorf("parse error %d of %q: message %q does not contain its position %d:%d", i, p.Src, e.Error(), c.StartLine, c.StartCol)
		}
	}
	if p.Off < 0 {
		return nil
	}
	for _, e := range errs {
		if e.Context.From == p.Off {
			c := e.Context
			return c37CheckPlanted(&c, p, p.Off, p.Culprit, p.Len, fmt.Sprintf("parse error %q", e.Message))
		}
	}
	return fmt.Errorf("%s planted at offset %d (line %d column %d) of %q: no parse error is reported there (errors: %v)", p.Kind, p.Off, p.Line+1, p.Col+1, p.Src, err)
}

// ---- C37/compile-error ----------------------------------------------------------

type c37Culprit struct {
	pre, culprit, post string
}

var c37CompileCulprits = []c37Culprit{
	{"put ", "$undef-xyz", ""},
	{"put a ", "$é-undefined", " b"},
	{"nop [", "$undef-xyz", "]"},
	{"del ", "$nil", ""},
	{"del ", "[\n a\n]", ""},
	{"nop a; del ", "[\n\n]", "; nop"},
	{"var ", "v-new[0]", " = 1"},
	{"nop { put ", "$undef-xyz", " }"},
	{"set ", "undef-lhs", " = 1"},
}

func c37GenCompile(t *rapid.T) c37Planted {
	cu := rapid.SampledFrom(c37CompileCulprits).Draw(t, "culprit")
	src, off, line, col := c37Layout(t, cu.pre+cu.culprit+cu.post, "")
	off += len(cu.pre)
	col += len(cu.pre)
	return c37Planted{Kind: "compile", Src: src, Off: off, Line: line, Col: col, Culprit: cu.culprit, Len: len(cu.culprit)}
}

var (
	c37EvOnce sync.Once
	c37Ev     *eval.Evaler
)

func c37Evaler() *eval.Evaler {
	c37EvOnce.Do(func() { c37Ev = elv.New() })
	return c37Ev
}

func c37CheckCompile(p c37Planted) error {
	res := elv.RunCtx(c37Evaler(), p.Src, nil, eval.BuildNs().Ns())
	errs := eval.UnpackCompilationErrors(res.Err)
	if len(errs) == 0 {
		return fmt.Errorf("program %q with culprit %q: expected a compilation error, got %v", p.Src, p.Culprit, res.Err)
	}
	for i, e := range errs {
		c := e.Context
		if err := c37CheckContext(&c, "[verif]", p.Src, fmt.Sprintf("compilation error %d %q", i, e.Message)); err != nil {
			return err
		}
	}
	for _, e := range errs {
		if e.Context.From == p.Off {
			c := e.Context
			return c37CheckPlanted(&c, p, p.Off, p.Culprit, p.Len, fmt.Sprintf("compilation error %q", e.Message))
		}
	}
	return fmt.Errorf("culprit %q planted at offset %d (line %d column %d) of %q: no compilation error is reported there (errors: %v)", p.Culprit, p.Off, p.Line+1, p.Col+1, p.Src, res.Err)
}

// ---- C37/traceback --------------------------------------------------------------

type c37TraceCulprit struct {
	pre, culprit, post string
	extra              int // bytes after the culprit that the reported range also covers (a trailing newline)
}

var c37TraceCulprits = []c37TraceCulprit{
	{"", "fail x", "", 0},
	{"", "fail 'é世'", "", 0},
	{"nop (", "fail x", ")", 0},
	{"", "fail [\n a\n b\n]", "", 0},
	{"put ", "[a\nb][\n 5\n]", "", 0},
	{"put ", "$nil[x]", " y", 0},
	{"nop a | ", "fail b", "| nop c", 0},
	{"", "range 1 0 &step=", "", 1}, // the pair swallows the newline: the range ends right after it
	{"put ", "[&k=v][\n\n nokey\n\n]", "", 0},
	{"", "fail \"a\\nb\"", "; nop", 0},
}

func c37GenTrace(t *rapid.T) c37Planted {
	if rapid.IntRange(0, 2).Draw(t, "nested") == 0 {
		// failure inside a function, called from a known place: two entries
		fname := rapid.SampledFrom([]string{"f", "fé", "a-b"}).Draw(t, "fname")
		inner := "fail $a"
		def := []string{"fn " + fname + " {|a|", "  nop", "\t" + inner, "}"}
		call := fname + " x"
		src, off, line, col := c37Layout(t, call, rapid.SampledFrom([]string{"", ";nop"}).Draw(t, "suffix"))
		// put the definition first
		head := strings.Join(def, "\n") + "\n"
		inOff := len(def[0]) + 1 + len(def[1]) + 1 + 1
		return c37Planted{Kind: "trace/call", Src: head + src, Off: len(head) + off, Line: line + len(def), Col: col, Culprit: call, Len: len(call),
			Outer: inner, OutOff: inOff, OutLine: 2, OutCol: 1}
	}
	cu := rapid.SampledFrom(c37TraceCulprits).Draw(t, "culprit")
	suffix := ""
	if cu.extra > 0 {
		suffix = c37Last
	}
	src, off, line, col := c37Layout(t, cu.pre+cu.culprit+cu.post, suffix)
	return c37Planted{Kind: "trace/direct", Src: src, Off: off + len(cu.pre), Line: line, Col: col + len(cu.pre), Culprit: cu.culprit, Len: len(cu.culprit) + cu.extra}
}

func c37CheckTrace(p c37Planted) error {
	res := elv.RunCtx(c37Evaler(), p.Src, nil, eval.BuildNs().Ns())
	exc, ok := res.Err.(eval.Exception)
	if !ok {
		return fmt.Errorf("program %q with culprit %q: expected an exception, got %v", p.Src, p.Culprit, res.Err)
	}
	var entries []*diag.Context
	for st := exc.StackTrace(); st != nil; st = st.Next {
		entries = append(entries, st.Head)
	}
	for i, c := range entries {
		if err := c37CheckContext(c, "[verif]", p.Src, fmt.Sprintf("traceback entry %d", i)); err != nil {
			return err
		}
	}
	want := 1
	if p.Outer != "" {
		want = 2
	}
	if len(entries) != want {
		return fmt.Errorf("program %q: traceback has %d entries, want %d", p.Src, len(entries), want)
	}
	if p.Outer != "" {
		// innermost first: the fail inside the function, then the call
		if err := c37CheckPlanted(entries[0], p, p.OutOff, p.Outer, len(p.Outer), "traceback entry 0 (inside the function)"); err != nil {
			return err
		}
		return c37CheckPlanted(entries[1], p, p.Off, p.Culprit, p.Len, "traceback entry 1 (the call)")
	}
	return c37CheckPlanted(entries[0], p, p.Off, p.Culprit, p.Len, "traceback entry 0")
}

func init() {
	vs.Register(vs.Prop[c37Planted]{
		Name:    "C37/parse-error",
		Rule:    "(a) a stray ) ] } planted after 0..4 filler statements (multi-line strings/lists/lambdas, multibyte, tabs, CR) behind a prefix on its line: a parse error must be reported at exactly the laid-out line:column; (b) an unterminated string: zero-width error at the end of the text; (c) byte-mutated grammar programs: every reported context agrees with the byte scan of the source; non-trivial = culprit not on the first line / at least one error",
		Gen:     c37GenParsePlanted,
		Check:   c37CheckParse,
		Class: func(p c37Planted) (string, bool) {
			if p.Off < 0 {
				_, err := parse.Parse(parse.Source{Name: "[verif]", Code: p.Src}, parse.Config{})
				n := len(parse.UnpackErrors(err))
				if n == 0 {
					return "mutated/no-error", false
				}
				return "mutated/errors", true
			}
			return c37PlantedClass(p)
		},
		Quick: 6000, Thorough: 80000,
		Timeout: 20 * time.Second,
	})
	vs.Register(vs.Prop[c37Planted]{
		Name:    "C37/compile-error",
		Rule:    "a statement with a compilation error (undefined variable incl. multibyte name, del of a non-variable spanning 3 lines, del with $, new variable with index, set of an undefined variable) planted at a laid-out line and column among filler statements; the compilation error must cover exactly the culprit and report the laid-out position; non-trivial = culprit not on the first line",
		Gen:     c37GenCompile,
		Check:   c37CheckCompile,
		Class:   c37PlantedClass,
		Quick:   3000, Thorough: 40000,
		Timeout: 20 * time.Second,
	})
	vs.Register(vs.Prop[c37Planted]{
		Name:    "C37/traceback",
		Rule:    "a failing form (fail, fail with multi-line argument, out-of-range / missing-key index spanning lines, failing form inside a capture and inside a pipeline, a form whose range ends right after a newline) planted at a laid-out line and column, or a function defined on known lines that fails when called from a laid-out place (2 entries, innermost first); every traceback entry must cover exactly its culprit and report the laid-out position; non-trivial = culprit not on the first line",
		Gen:     c37GenTrace,
		Check:   c37CheckTrace,
		Class:   c37PlantedClass,
		Quick:   3000, Thorough: 40000,
		Timeout: 20 * time.Second,
	})
}
