package props

// C38 Option parsing matches the GNU/BSD getopt_long conventions selected by
// the Config bits; Complete interprets args[:n-1] exactly as Parse does.
//
// Oracle: c38Model, a reference scanner written from the getopt_long
// conventions as the package godoc selects them:
//   * "-abc": chained short options; an option that takes an argument ends the
//     chain and takes the rest of the element as its (attached) argument;
//   * a required argument that is not attached is the next element, whatever it
//     looks like; an optional argument can only be attached;
//   * "--name", "--name=value" (and "-name", "-name=value" with LongOnly, where
//     short options do not exist); long names only match specs that have one;
//   * "-" and "" are plain arguments; "--" ends option parsing when
//     StopAfterDoubleDash is set; the first non-option ends option parsing when
//     StopBeforeFirstNonOption is set;
//   * unknown options are reported and, as the doc of Complete says, assumed to
//     take an optional argument.
// Where the godoc is silent about a getopt_long behaviour the implemented
// behaviour is accepted as well as the GNU one (see c38Dialect / loose below).
//
// Sub-checks:
//   C38/parse     getopt.Parse against the model
//   C38/complete  getopt.Complete on every non-empty prefix: the options and
//                 arguments of args[:n-1] are the model's; the Context is the
//                 one the ContextType godoc prescribes for the model's state
//                 (pending option, stopped) and the last element.

import (
	"fmt"
	"strings"
	"unicode/utf8"

	"pgregory.net/rapid"
	"src.elv.sh/pkg/getopt"
	"verif/vs"
)

type c38Spec struct {
	Short string `json:"short"` // "" or one character
	Long  string `json:"long"`
	Arity int    `json:"arity"` // 0 none, 1 required, 2 optional
}

type c38Case struct {
	Specs []c38Spec `json:"specs"`
	Args  []vs.B    `json:"args"`
	Cfg   int       `json:"cfg"` // bit 0 StopAfterDoubleDash, 1 StopBeforeFirstNonOption, 2 LongOnly
}

// ---- reference model --------------------------------------------------------

type c38Opt struct {
	spec    int    // index into specs, -1 = unknown
	name    string // name of an unknown option (one character or a long name)
	long    bool
	arg     string
	looseEq bool // "--noarg=value": godoc silent, GNU rejects; argument and error not compared
}

type c38State struct {
	opts    []c38Opt
	args    []string
	pending *c38Opt // option still waiting for its required argument
	stopped bool
	loose   bool // some option has looseEq
	abbrev  bool // some long name was resolved (or would be) as an abbreviation
}

// dialect: whether unambiguous prefixes of long names are accepted (GNU) or
// treated as unknown options (implemented; the godoc does not mention them).
type c38Dialect struct{ abbrev bool }

func c38FindLong(name string, specs []c38Spec, d c38Dialect, st *c38State) int {
	if name == "" {
		return -1 // a spec with Long == "" is short-only; nothing is called ""
	}
	for i, s := range specs {
		if s.Long != "" && s.Long == name {
			return i
		}
	}
	found, n := -1, 0
	for i, s := range specs {
		if s.Long != "" && strings.HasPrefix(s.Long, name) {
			found = i
			n++
		}
	}
	if n > 0 {
		st.abbrev = true
	}
	if d.abbrev && n == 1 {
		return found
	}
	return -1
}

// c38Long interprets the text after the dashes of a long option. The second
// result says whether the option still needs its argument.
func c38Long(s string, specs []c38Spec, d c38Dialect, st *c38State) (c38Opt, bool) {
	name, val, hasEq := s, "", false
	if i := strings.IndexByte(s, '='); i >= 0 {
		name, val, hasEq = s[:i], s[i+1:], true
	}
	i := c38FindLong(name, specs, d, st)
	if i < 0 {
		return c38Opt{spec: -1, name: name, long: true, arg: val}, false
	}
	o := c38Opt{spec: i, long: true, arg: val}
	switch specs[i].Arity {
	case 0:
		if hasEq {
			o.looseEq = true
			st.loose = true
		}
		return o, false
	case 1:
		return o, !hasEq
	}
	return o, false
}

// c38Short interprets the text after the dash of a chain of short options.
func c38Short(s string, specs []c38Spec) ([]c38Opt, bool) {
	var out []c38Opt
	for len(s) > 0 {
		r, w := utf8.DecodeRuneInString(s)
		ch, rest := s[:w], s[w:]
		idx := -1
		for i, sp := range specs {
			if sp.Short != "" && sp.Short == ch {
				idx = i
				break
			}
		}
		_ = r
		if idx < 0 {
			// unknown: assumed to take an optional argument
			out = append(out, c38Opt{spec: -1, name: ch, arg: rest})
			return out, false
		}
		switch specs[idx].Arity {
		case 0:
			out = append(out, c38Opt{spec: idx})
			s = rest
			continue
		case 1:
			out = append(out, c38Opt{spec: idx, arg: rest})
			return out, rest == ""
		default:
			out = append(out, c38Opt{spec: idx, arg: rest})
			return out, false
		}
	}
	return out, false
}

func c38Model(args []string, specs []c38Spec, cfg int, d c38Dialect) c38State {
	var st c38State
	dd, first, longOnly := cfg&1 != 0, cfg&2 != 0, cfg&4 != 0
	for _, a := range args {
		switch {
		case st.pending != nil:
			st.pending.arg = a
			st.opts = append(st.opts, *st.pending)
			st.pending = nil
		case st.stopped:
			st.args = append(st.args, a)
		case a == "--" && dd:
			st.stopped = true
		case a == "" || a == "-" || a == "--" || a[0] != '-':
			// "--" without StopAfterDoubleDash: the godoc gives it no meaning; it
			// is then an ordinary word (implemented behaviour).
			st.args = append(st.args, a)
			if first {
				st.stopped = true
			}
		case strings.HasPrefix(a, "--") || longOnly:
			// exactly two dashes ("--name"), or one with LongOnly ("-name"),
			// introduce the option; further dashes belong to the name
			name := a[1:]
			if strings.HasPrefix(a, "--") {
				name = a[2:]
			}
			o, need := c38Long(name, specs, d, &st)
			if need {
				st.pending = &o
			} else {
				st.opts = append(st.opts, o)
			}
		default:
			os, need := c38Short(a[1:], specs)
			if need {
				st.opts = append(st.opts, os[:len(os)-1]...)
				last := os[len(os)-1]
				st.pending = &last
			} else {
				st.opts = append(st.opts, os...)
			}
		}
	}
	return st
}

// ---- comparison -------------------------------------------------------------

func c38Specs(cs []c38Spec) []*getopt.OptionSpec {
	out := make([]*getopt.OptionSpec, len(cs))
	for i, s := range cs {
		var r rune
		if s.Short != "" {
			r, _ = utf8.DecodeRuneInString(s.Short)
		}
		out[i] = &getopt.OptionSpec{Short: r, Long: s.Long, Arity: getopt.Arity(s.Arity)}
	}
	return out
}

func c38Cfg(c int) getopt.Config {
	var cfg getopt.Config
	if c&1 != 0 {
		cfg |= getopt.StopAfterDoubleDash
	}
	if c&2 != 0 {
		cfg |= getopt.StopBeforeFirstNonOption
	}
	if c&4 != 0 {
		cfg |= getopt.LongOnly
	}
	return cfg
}

func c38ShowOpt(o *getopt.Option, specs []*getopt.OptionSpec) string {
	if o == nil {
		return "<nil>"
	}
	if o.Spec == nil {
		return "{Spec:nil}"
	}
	idx := -1
	for i, s := range specs {
		if s == o.Spec {
			idx = i
		}
	}
	return fmt.Sprintf("{spec#%d short=%q long=%q unknown=%v long=%v arg=%q}", idx, string(o.Spec.Short), o.Spec.Long, o.Unknown, o.Long, o.Argument)
}

func c38ShowModel(o c38Opt) string {
	return fmt.Sprintf("{spec#%d name=%q long=%v arg=%q}", o.spec, o.name, o.long, o.arg)
}

func c38SameOpt(got *getopt.Option, want c38Opt, specs []*getopt.OptionSpec) error {
	bad := func() error {
		return fmt.Errorf("option %s, reference %s", c38ShowOpt(got, specs), c38ShowModel(want))
	}
	if got == nil || got.Spec == nil {
		return bad()
	}
	if want.spec >= 0 {
		if got.Spec != specs[want.spec] || got.Unknown {
			return bad()
		}
	} else {
		if !got.Unknown {
			return bad()
		}
		for _, s := range specs {
			if s == got.Spec {
				return bad()
			}
		}
		if want.long {
			if got.Spec.Long != want.name {
				return bad()
			}
		} else if string(got.Spec.Short) != want.name {
			return bad()
		}
	}
	if got.Long != want.long {
		return bad()
	}
	if !want.looseEq && got.Argument != want.arg {
		return bad()
	}
	return nil
}

func c38SameOpts(got []*getopt.Option, want []c38Opt, specs []*getopt.OptionSpec) error {
	if len(got) != len(want) {
		return fmt.Errorf("%d options, reference %d", len(got), len(want))
	}
	for i := range got {
		if err := c38SameOpt(got[i], want[i], specs); err != nil {
			return fmt.Errorf("#%d: %v", i, err)
		}
	}
	return nil
}

func c38SameArgs(got, want []string) error {
	if len(got) != len(want) {
		return fmt.Errorf("non-option arguments %q, reference %q", got, want)
	}
	for i := range got {
		if got[i] != want[i] {
			return fmt.Errorf("non-option arguments %q, reference %q", got, want)
		}
	}
	return nil
}

func c38Dialects(specs []c38Spec, args []string, cfg int) []c38Dialect {
	st := c38Model(args, specs, cfg, c38Dialect{})
	if st.abbrev {
		return []c38Dialect{{false}, {true}}
	}
	return []c38Dialect{{false}}
}

func c38Describe(c c38Case) string {
	return fmt.Sprintf("specs=%+v args=%q cfg=%v", c.Specs, vs.Bs(c.Args), c38Cfg(c.Cfg))
}

// ---- C38/parse ----------------------------------------------------------------

func c38CheckParse(c c38Case) error {
	args := vs.Bs(c.Args)
	specs := c38Specs(c.Specs)
	opts, rest, err := getopt.Parse(args, specs, c38Cfg(c.Cfg))
	for _, a := range args {
		if !utf8.ValidString(a) {
			return nil // outside the domain of this property: only "no crash" (regression cases)
		}
	}
	var firstErr error
	for _, d := range c38Dialects(c.Specs, args, c.Cfg) {
		e := c38ParseAgainst(c, d, opts, rest, err, specs)
		if e == nil {
			return nil
		}
		if firstErr == nil {
			firstErr = e
		}
	}
	return fmt.Errorf("Parse: %v\n%s", firstErr, c38Describe(c))
}

func c38ParseAgainst(c c38Case, d c38Dialect, opts []*getopt.Option, rest []string, err error, specs []*getopt.OptionSpec) error {
	st := c38Model(vs.Bs(c.Args), c.Specs, c.Cfg, d)
	want := st.opts
	if e := c38SameOpts(opts, want, specs); e != nil {
		// The option whose required argument is missing may or may not be listed.
		if st.pending == nil || c38SameOpts(opts, append(append([]c38Opt(nil), want...), *st.pending), specs) != nil {
			return e
		}
	}
	if e := c38SameArgs(rest, st.args); e != nil {
		return e
	}
	mustErr := st.pending != nil
	for _, o := range st.opts {
		if o.spec < 0 {
			mustErr = true
		}
	}
	switch {
	case mustErr && err == nil:
		return fmt.Errorf("no error, but the reference has a missing argument or an unknown option (pending=%v)", st.pending != nil)
	case !mustErr && err != nil && !st.loose:
		return fmt.Errorf("error %q, but every option is known and has its argument", err)
	}
	return nil
}

// ---- C38/complete -------------------------------------------------------------

func c38CheckComplete(c c38Case) error {
	all := vs.Bs(c.Args)
	for _, a := range all {
		if !utf8.ValidString(a) {
			specs := c38Specs(c.Specs)
			if len(all) > 0 {
				getopt.Complete(all, specs, c38Cfg(c.Cfg)) // only "no crash"
			}
			return nil
		}
	}
	for n := 1; n <= len(all); n++ {
		if err := c38CompleteOne(c, all[:n]); err != nil {
			return fmt.Errorf("Complete(args[:%d]): %v\n%s", n, err, c38Describe(c))
		}
	}
	return nil
}

func c38CompleteOne(c c38Case, args []string) error {
	specs := c38Specs(c.Specs)
	opts, rest, ctx := getopt.Complete(append([]string(nil), args...), specs, c38Cfg(c.Cfg))
	var firstErr error
	ds := c38Dialects(c.Specs, args, c.Cfg)
	if len(ds) == 1 {
		// an abbreviation may also sit in the last element
		var st c38State
		last := args[len(args)-1]
		c38Long(strings.TrimLeft(last, "-"), c.Specs, c38Dialect{}, &st)
		if st.abbrev {
			ds = []c38Dialect{{false}, {true}}
		}
	}
	for _, d := range ds {
		e := c38CompleteAgainst(c, d, args, opts, rest, ctx, specs)
		if e == nil {
			return nil
		}
		if firstErr == nil {
			firstErr = e
		}
	}
	return firstErr
}

func c38CtxName(t getopt.ContextType) string { return t.String() }

func c38CompleteAgainst(c c38Case, d c38Dialect, args []string, opts []*getopt.Option, rest []string, ctx getopt.Context, specs []*getopt.OptionSpec) error {
	st := c38Model(args[:len(args)-1], c.Specs, c.Cfg, d)
	last := args[len(args)-1]
	longOnly := c.Cfg&4 != 0

	// What the last element contributes.
	var (
		wantType   getopt.ContextType
		wantText   string
		wantOpt    *c38Opt  // for OptionArgument
		chain      []c38Opt // options of the last element that are complete
		textMatter bool
	)
	longCtx := func(s string) {
		if !strings.Contains(s, "=") {
			wantType, wantText, textMatter = getopt.LongOption, s, true
			return
		}
		var scratch c38State
		o, _ := c38Long(s, c.Specs, d, &scratch)
		wantType, wantOpt = getopt.OptionArgument, &o
	}
	switch {
	case st.pending != nil:
		o := *st.pending
		o.arg = last
		wantType, wantOpt = getopt.OptionArgument, &o
	case st.stopped:
		wantType, wantText, textMatter = getopt.Argument, last, true
	case last == "":
		wantType = getopt.OptionOrArgument
	case last == "-":
		wantType = getopt.AnyOption
	case strings.HasPrefix(last, "--"):
		longCtx(last[2:])
	case strings.HasPrefix(last, "-"):
		if longOnly {
			longCtx(last[1:])
		} else {
			os, _ := c38Short(last[1:], c.Specs)
			lo := os[len(os)-1]
			if lo.spec >= 0 && c.Specs[lo.spec].Arity == 0 {
				wantType, chain = getopt.ChainShortOption, os
			} else {
				wantType, wantOpt, chain = getopt.OptionArgument, &lo, os[:len(os)-1]
			}
		}
	default:
		wantType, wantText, textMatter = getopt.Argument, last, true
	}

	// args[:n-1] exactly as Parse: options (as a prefix; the godoc does not say
	// whether complete options of the last element are listed too) and arguments.
	if len(opts) < len(st.opts) {
		return fmt.Errorf("%d options for args[:n-1], reference %d", len(opts), len(st.opts))
	}
	if e := c38SameOpts(opts[:len(st.opts)], st.opts, specs); e != nil {
		return fmt.Errorf("options of args[:n-1]: %v", e)
	}
	if tail := opts[len(st.opts):]; len(tail) != 0 {
		if e := c38SameOpts(tail, chain, specs); e != nil {
			return fmt.Errorf("options beyond those of args[:n-1] are not the complete short options of the last element: %v", e)
		}
	}
	if e := c38SameArgs(rest, st.args); e != nil {
		return fmt.Errorf("args[:n-1]: %v", e)
	}
	if ctx.Type != wantType {
		return fmt.Errorf("context %s, reference %s (pending=%v stopped=%v last=%q)", c38CtxName(ctx.Type), c38CtxName(wantType), st.pending != nil, st.stopped, last)
	}
	if textMatter && ctx.Text != wantText {
		return fmt.Errorf("context %s text %q, reference %q", c38CtxName(ctx.Type), ctx.Text, wantText)
	}
	if wantOpt != nil {
		if e := c38SameOpt(ctx.Option, *wantOpt, specs); e != nil {
			return fmt.Errorf("context option: %v", e)
		}
	}
	return nil
}

// ---- generator ----------------------------------------------------------------

var c38Shorts = []string{"a", "b", "c", "v", "f", "x", "n", "1", "é", "世", "\U0001F600", "=", "?", "A", "�", "\x00"}
var c38Longs = []string{"foo", "fo", "foobar", "bar", "verbose", "file", "a", "v", "世界", "dry-run", "x_y", "foo.bar", "é", "-x", "n"}
var c38Values = []string{"", "v", "val", "-x", "--", "-", "=", "a=b", "世", "two words", "--foo", "-a", "\U0001F600", "0"}
var c38Words = []string{"word", "a", "foo", "a=b", "=", "世界", "+x", " ", "x-", "file.txt"}
var c38Odd = []string{"-", "--", "", "---", "--=", "--=v", "-=", "-=v", "---foo", "--foo=", "-é", "- ", "--- x"}

func c38NulOpen() bool { return vs.KnownOpen("C38:nul-short-matches-long-only") }

func c38Gen(t *rapid.T) c38Case {
	var c c38Case
	c.Cfg = rapid.IntRange(0, 7).Draw(t, "cfg")
	nspec := rapid.SampledFrom([]int{3, 4, 2, 5, 6, 3, 4, 1, 7, 0}).Draw(t, "nspec")
	usedS, usedL := map[string]bool{}, map[string]bool{}
	longOnlySpec := false
	for i := 0; i < nspec; i++ {
		var s c38Spec
		kind := rapid.SampledFrom([]int{2, 0, 1, 3}).Draw(t, "kind") // 0 short, 1 long, 2/3 both
		if kind != 1 {
			sh := rapid.SampledFrom(c38Shorts).Draw(t, "short")
			// Short == 0 is the API's way of saying "no short option", so NUL
			// cannot be a spec's short option (it stays in the argument alphabet).
			if !usedS[sh] && sh != "\x00" {
				usedS[sh] = true
				s.Short = sh
			}
		}
		if kind != 0 {
			l := rapid.SampledFrom(c38Longs).Draw(t, "long")
			if !usedL[l] {
				usedL[l] = true
				s.Long = l
			}
		}
		if s.Short == "" && s.Long == "" {
			continue
		}
		if s.Short == "" {
			longOnlySpec = true
		}
		s.Arity = rapid.SampledFrom([]int{1, 0, 2, 1, 0, 1, 2, 0}).Draw(t, "arity")
		c.Specs = append(c.Specs, s)
	}
	var shorts, longs []string
	for _, s := range c.Specs {
		if s.Short != "" {
			shorts = append(shorts, s.Short)
		}
		if s.Long != "" {
			longs = append(longs, s.Long)
		}
	}
	pickShort := func() string {
		if len(shorts) > 0 && rapid.IntRange(0, 9).Draw(t, "known?") < 8 {
			return rapid.SampledFrom(shorts).Draw(t, "sh")
		}
		return rapid.SampledFrom(c38Shorts).Draw(t, "sh")
	}
	pickLong := func() string {
		k := rapid.IntRange(0, 9).Draw(t, "lk")
		switch {
		case len(longs) > 0 && k < 6:
			return rapid.SampledFrom(longs).Draw(t, "ln")
		case len(longs) > 0 && k == 6:
			l := rapid.SampledFrom(longs).Draw(t, "ln")
			_, w := utf8.DecodeRuneInString(l)
			return l[:w] // abbreviation (or a one-letter name itself)
		case len(shorts) > 0 && k == 7:
			return rapid.SampledFrom(shorts).Draw(t, "sh")
		}
		return rapid.SampledFrom(c38Longs).Draw(t, "ln")
	}
	nargs := rapid.SampledFrom([]int{3, 4, 2, 5, 6, 1, 7, 8, 0}).Draw(t, "nargs")
	for i := 0; i < nargs; i++ {
		var a string
		switch k := rapid.IntRange(0, 11).Draw(t, "ak"); {
		case k <= 3: // short chain
			a = "-"
			n := rapid.IntRange(1, 4).Draw(t, "chain")
			for j := 0; j < n; j++ {
				a += pickShort()
			}
			if rapid.IntRange(0, 2).Draw(t, "att") == 0 {
				a += rapid.SampledFrom(c38Values).Draw(t, "val")
			}
		case k <= 6: // long
			a = "--"
			if rapid.IntRange(0, 3).Draw(t, "dash1") == 0 {
				a = "-"
			}
			a += pickLong()
			if rapid.IntRange(0, 2).Draw(t, "eq") == 0 {
				a += "=" + rapid.SampledFrom(c38Values).Draw(t, "val")
			}
		case k <= 8:
			a = rapid.SampledFrom(c38Words).Draw(t, "word")
		case k == 9:
			a = rapid.SampledFrom(c38Values).Draw(t, "val")
		default:
			a = rapid.SampledFrom(c38Odd).Draw(t, "odd")
		}
		if c38NulOpen() && longOnlySpec && c.Cfg&4 == 0 && strings.HasPrefix(a, "-") && !strings.HasPrefix(a, "--") && strings.Contains(a, "\x00") {
			vs.Excluded("C38:nul-short-matches-long-only: NUL in a short-option element while a long-only spec exists")
			a = strings.ReplaceAll(a, "\x00", "z")
		}
		c.Args = append(c.Args, vs.B(a))
	}
	return c
}

// ---- classification -----------------------------------------------------------

func c38ClassParse(c c38Case) (string, bool) {
	args := vs.Bs(c.Args)
	st := c38Model(args, c.Specs, c.Cfg, c38Dialect{})
	cfg := []string{"", "dd", "first", "dd+first", "longonly", "longonly+dd", "longonly+first", "longonly+dd+first"}[c.Cfg&7]
	_ = cfg
	chain, attached, detached, optDetached, unknown := false, false, false, false, false
	// replay the model element by element to see which conventions were exercised
	for i := range args {
		before := c38Model(args[:i], c.Specs, c.Cfg, c38Dialect{})
		after := c38Model(args[:i+1], c.Specs, c.Cfg, c38Dialect{})
		if before.pending != nil {
			detached = true
			continue
		}
		newOpts := after.opts[len(before.opts):]
		if after.pending != nil {
			newOpts = append(append([]c38Opt(nil), newOpts...), *after.pending)
		}
		if len(newOpts) > 1 {
			chain = true
		}
		for _, o := range newOpts {
			if o.spec < 0 {
				unknown = true
			} else if o.arg != "" && after.pending == nil {
				attached = true
			} else if c.Specs[o.spec].Arity == 2 && o.arg == "" {
				optDetached = true
			}
		}
	}
	nontrivial := len(st.opts) > 0 || st.pending != nil
	switch {
	case st.loose:
		return "noarg=value(loose)", nontrivial
	case st.abbrev:
		return "abbreviation(both accepted)", nontrivial
	case st.pending != nil:
		return "missing-argument", nontrivial
	case st.stopped && len(st.opts) > 0 && c.Cfg&2 != 0 && len(st.args) > 1:
		return "stopped-at-first-nonoption", nontrivial
	case st.stopped && len(st.opts) > 0:
		return "stopped-after--", nontrivial
	case chain && (attached || detached):
		return "chain+argument", nontrivial
	case chain:
		return "chain", nontrivial
	case detached:
		return "detached-argument", nontrivial
	case attached:
		return "attached-argument", nontrivial
	case optDetached:
		return "optional-without-argument", nontrivial
	case unknown:
		return "unknown-only", nontrivial
	case nontrivial:
		return "plain-options", true
	}
	return "no-options", false
}

func c38ClassComplete(c c38Case) (string, bool) {
	args := vs.Bs(c.Args)
	if len(args) == 0 {
		return "empty(skipped)", false
	}
	st := c38Model(args[:len(args)-1], c.Specs, c.Cfg, c38Dialect{})
	last := args[len(args)-1]
	switch {
	case st.pending != nil:
		return "last-is-pending-argument", true
	case st.stopped:
		return "after-stop", true
	case last == "" || last == "-":
		return "empty-or-dash", len(args) > 1
	case strings.HasPrefix(last, "--") || (strings.HasPrefix(last, "-") && c.Cfg&4 != 0):
		if strings.Contains(last, "=") {
			return "long=value", true
		}
		return "long-name", true
	case strings.HasPrefix(last, "-"):
		return "short-chain", true
	}
	return "word", len(args) > 1
}

func init() {
	known := []vs.Known[c38Case]{
		{Key: "C38:invalid-utf8-short", Case: c38Case{Args: []vs.B{"-\xff"}, Cfg: 1}},
		{Key: "C38:invalid-utf8-short", Case: c38Case{Specs: []c38Spec{{Short: "a", Arity: 0}}, Args: []vs.B{"-a\xffb", "x"}, Cfg: 1}},
		{Key: "C38:empty-long-matches-short-only", Case: c38Case{Specs: []c38Spec{{Short: "a", Arity: 0}}, Args: []vs.B{"--=foo"}, Cfg: 1}},
		{Key: "C38:empty-long-matches-short-only", Case: c38Case{Specs: []c38Spec{{Short: "a", Arity: 1}}, Args: []vs.B{"--", "x"}, Cfg: 0}},
		{Key: "C38:empty-long-matches-short-only", Case: c38Case{Specs: []c38Spec{{Short: "a", Arity: 1}}, Args: []vs.B{"-=foo", "x"}, Cfg: 4}},
		{Key: "C38:nul-short-matches-long-only", Case: c38Case{Specs: []c38Spec{{Long: "foo", Arity: 0}}, Args: []vs.B{"-\x00"}, Cfg: 1}},
	}
	rule := "0-6 specs (short-only, long-only, both; three arities; ASCII, BMP, astral and odd short characters; distinct names), all 8 configurations, 0-7 arguments: short chains of known/unknown characters with or without attached value, long options with -- or - (known, unknown, abbreviated, one-letter) with or without =value, plain words, values that look like options, and '-', '--', '', '---', '--=', '--=v', '-=' ..."
	vs.Register(vs.Prop[c38Case]{
		Name:  "C38/parse",
		Rule:  rule + "; non-trivial = the reference finds at least one option",
		Gen:   c38Gen,
		Check: c38CheckParse,
		Class: c38ClassParse,
		Quick: 20000, Thorough: 300000, FuzzSecs: 45,
		Known: known,
	})
	vs.Register(vs.Prop[c38Case]{
		Name:  "C38/complete",
		Rule:  rule + "; Complete is called on every non-empty prefix of the list; class = state before / shape of the last element; non-trivial = the last element is an option, follows a stop or is a pending argument, or something precedes it",
		Gen:   c38Gen,
		Check: c38CheckComplete,
		Class: c38ClassComplete,
		Quick: 20000, Thorough: 300000,
		Known: known,
	})
}
