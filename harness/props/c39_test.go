package props

// C39 One interpreter can safely be used from many goroutines.
//
// A case is a set of 2..8 goroutines, each with a short list of operations on
// ONE shared Evaler: Eval of a generated program, Call of a function, Check of
// a source. Programs only write global names carrying their goroutine's prefix
// and only read shared state that is set up before the goroutines start
// (functions, a list) or lives in modules; some use peach / run-parallel /
// pipelines, some import temp modules (the same or different ones).
//
// Oracle: because the goroutines' programs are independent, every sequential
// order of the evaluations gives each operation the same result; one such
// order (goroutine 0's operations, then goroutine 1's, ...), run on a fresh
// interpreter with the same set-up, is the reference for every operation's
// values, bytes and error. In addition every module body runs at most once
// (harness counter; never under concurrent first use while that finding is open), and
// after the goroutines have finished every goroutine's globals are visible
// with their final values. The sub-check runs on the -race binary: a data race
// report or a fatal error ("concurrent map writes") fails the run.

import (
	"encoding/json"
	"fmt"
	"os"
	"os/exec"
	"path/filepath"
	"runtime"
	"strconv"
	"strings"
	"sync"
	"time"

	"pgregory.net/rapid"
	"src.elv.sh/pkg/eval"
	"src.elv.sh/pkg/parse"
	"verif/elv"
	"verif/vs"
)

type c39Snip struct {
	T string `json:"t"`
	A int    `json:"a,omitempty"`
	B int    `json:"b,omitempty"`
	C int    `json:"c,omitempty"`
	M int    `json:"m,omitempty"` // module index
}

type c39Op struct {
	Kind  string    `json:"kind"` // "eval", "call", "check"
	Snips []c39Snip `json:"snips,omitempty"`
	Fn    string    `json:"fn,omitempty"`  // call: shared-add | shared-par
	Src   string    `json:"src,omitempty"` // check: ok | undef | parse | own | setup
	A     int       `json:"a,omitempty"`
	B     int       `json:"b,omitempty"`
}

type c39Case struct {
	Procs   int       `json:"procs"`
	Gs      [][]c39Op `json:"gs"`
	Preload []int     `json:"preload,omitempty"` // modules imported by the set-up, before the goroutines start
	Slow    bool      `json:"slow,omitempty"`    // module bodies yield in the middle
	Hold    bool      `json:"hold,omitempty"`    // regression case: the first module body waits for another goroutine's operation
	Child   bool      `json:"child,omitempty"`   // regression case of a data-race finding: run in a child process
}

const c39NMods = 8

// ---- source text ------------------------------------------------------------------------------

func c39Module(k int, c c39Case) string {
	var sb strings.Builder
	fmt.Fprintf(&sb, "c39-loaded %d\n", k)
	if c.Hold {
		sb.WriteString("c39-hold\n")
	}
	if k == 7 {
		sb.WriteString("use m6\nvar x = (+ $m6:x 1000)\n")
	} else {
		fmt.Fprintf(&sb, "var x = %d\n", 100+k)
	}
	if c.Slow {
		sb.WriteString("c39-y\n")
	}
	sb.WriteString("fn f {|a| put (+ $a $x) }\nvar l = [(range 3)]\n")
	return sb.String()
}

// c39ModsOf lists the modules a snippet loads (m7 imports m6).
func c39ModsOf(s c39Snip) []int {
	if s.T != "use" && s.T != "uselocal" {
		return nil
	}
	if s.M == 7 {
		return []int{7, 6}
	}
	return []int{s.M}
}

func c39Render(p string, idx int, s c39Snip) string {
	n := p + strconv.Itoa(idx)
	A, B, C, M := strconv.Itoa(s.A), strconv.Itoa(s.B), strconv.Itoa(s.C), strconv.Itoa(s.M)
	switch s.T {
	case "arith":
		return "var " + n + "a = (+ " + A + " " + B + "); set " + n + "a = (* $" + n + "a " + C + "); put $" + n + "a"
	case "loop":
		// the loop variable of a top-level `for` is a global too
		return "var " + n + "s = 0; for " + n + "x [(range " + A + ")] { set " + n + "s = (+ $" + n + "s $" + n + "x) }; put $" + n + "s"
	case "fn":
		return "fn " + n + "f {|a b| put (+ $a $b) }; " + n + "f " + A + " " + B + "; " + n + "f " + B + " " + C
	case "map":
		return "var " + n + "m = [&a=" + A + " &b=" + B + "]; set " + n + "m[c] = " + C + "; put (count $" + n + "m) $" + n + "m[c]; keys $" + n + "m | order"
	case "list":
		return "var " + n + "l = [(range " + A + ")]; set " + n + "l = (conj $" + n + "l " + B + "); put (count $" + n + "l) $" + n + "l[-1]"
	case "bg":
		// background jobs (they output nothing); the interpreter's count of
		// running background jobs is shared state
		return "nop &\nnop &\nnop &\nput " + n + "bg"
	case "peach":
		return "put (+ (peach {|x| put (* $x " + C + ") } [(range " + A + ")]))"
	case "peachb":
		return "peach &num-workers=2 {|x| put $x } [(range " + A + ")] | order"
	case "runpar":
		return "var " + n + "p = 0; var " + n + "q = 0; run-parallel { set " + n + "p = " + A + " } { set " + n + "q = " + B + " } { nop }; put $" + n + "p $" + n + "q"
	case "pipe":
		return "put [(range " + A + " | each {|x| put (* $x 2) } | take " + B + ")]"
	case "bytes":
		return "echo " + n + "hello | each {|x| put $x$x }; range " + A + " | to-lines | from-lines | count"
	case "use":
		return "use m" + M + "; put $m" + M + ":x; m" + M + ":f " + A
	case "uselocal":
		return "{ use m" + M + "; put $m" + M + ":x $m" + M + ":l; m" + M + ":f " + A + " }"
	case "closure":
		return "var " + n + "c = 0; fn " + n + "inc { set " + n + "c = (+ $" + n + "c 1) }; " + n + "inc; " + n + "inc; put $" + n + "c"
	case "tmp":
		return "var " + n + "t = " + A + "; { tmp " + n + "t = " + B + "; put $" + n + "t }; put $" + n + "t"
	case "del":
		return "var " + n + "d = " + A + "; del " + n + "d; var " + n + "d = " + B + "; put $" + n + "d"
	case "sharedset":
		// concurrent assignments to one variable: the last one wins, whichever it is
		return "var " + n + "v = -1; peach {|x| set " + n + "v = $x } [(range " + A + ")]; put (< $" + n + "v " + A + ") (>= $" + n + "v 0)"
	case "sharedrw":
		// one variable read and assigned by several callbacks at the same time:
		// every read sees some assigned value
		return "var " + n + "w = 0; peach {|x| set " + n + "w = $x; put (>= $" + n + "w 0) } [(range " + A + ")] | count; put (< $" + n + "w " + A + ")"
	case "gone":
		// readers that exit while the writer still has more than a channel
		// buffer of values to deliver
		return "put [(range (+ 100 " + A + ") | each {|x| put $x } | take " + B + ")]; range (+ 150 " + A + ") | nop; put " + n + "gone"
	case "special":
		// the interpreter's own variables, shared by every evaluation
		return "put $value-out-indicator $notify-bg-job-success (kind-of $num-bg-jobs) (kind-of $pwd)"
	case "dellocal":
		return "{ var d = " + A + "; del d; var d = " + B + "; put $d }"
	case "try":
		return "try { fail " + n + "boom } catch " + n + "e { put $" + n + "e[reason][content] }"
	case "str":
		return "use str; put (str:join '-' [a b " + n + "])"
	case "eval":
		return "eval 'var q = " + A + "; put (+ $q " + B + ")'"
	case "shared":
		return "put (shared-add " + A + " " + B + ") $shared-list[" + strconv.Itoa(s.A%3) + "]; shared-par " + C
	case "fail":
		return "fail " + n + "err"
	}
	return "nop"
}

func c39Prefix(g int) string { return "g" + strconv.Itoa(g) + "x" }

// c39EvalCode renders one eval operation of goroutine g. The first eval of a
// goroutine declares <prefix>fin; every later one reads and bumps it, so the
// goroutine's programs depend on the globals left by its earlier ones.
func c39EvalCode(g, opIdx int, op c39Op, first bool) string {
	p := c39Prefix(g)
	var lines []string
	if first {
		lines = append(lines, "var "+p+"fin = "+strconv.Itoa(1000*g))
	} else {
		lines = append(lines, "put $"+p+"fin; set "+p+"fin = (+ $"+p+"fin 1)")
	}
	for i, s := range op.Snips {
		lines = append(lines, c39Render(p, opIdx*10+i, s))
	}
	return strings.Join(lines, "\n")
}

func c39CheckSrc(g int, op c39Op) string {
	switch op.Src {
	case "undef":
		return "put $c39-undefined-" + strconv.Itoa(op.A)
	case "parse":
		return "put [" + strconv.Itoa(op.A)
	case "own":
		return "var z = " + strconv.Itoa(op.A) + "; put $z; fn zz { put $z }"
	case "setup":
		return "put $shared-list; shared-add 1 2"
	}
	return "put (+ " + strconv.Itoa(op.A) + " " + strconv.Itoa(op.B) + ")"
}

const c39Setup = "var shared-list = [a b c]\nfn shared-add {|a b| put (+ $a $b) }\nfn shared-par {|n| put (+ (peach {|x| put $x } [(range $n)])) }\n"

// ---- running ------------------------------------------------------------------------------------

type c39Rec struct {
	mu      sync.Mutex
	loaded  [c39NMods]int
	slow    bool
	hold    bool
	held    bool
	release chan struct{}
	once    sync.Once
}

func (r *c39Rec) opDone() {
	if r.release != nil {
		r.once.Do(func() { close(r.release) })
	}
}

func (r *c39Rec) fns() map[string]any {
	return map[string]any{
		"c39-loaded": func(k int) {
			r.mu.Lock()
			if k >= 0 && k < c39NMods {
				r.loaded[k]++
			}
			r.mu.Unlock()
		},
		"c39-y": func() {
			if r.slow {
				runtime.Gosched()
				time.Sleep(50 * time.Microsecond)
			}
		},
		// The first module body to get here waits until some operation of
		// another goroutine has completed (or 400 ms): if a concurrent `use` of
		// the module does not wait for the body, it completes meanwhile.
		"c39-hold": func() {
			if !r.hold {
				return
			}
			r.mu.Lock()
			first := !r.held
			r.held = true
			r.mu.Unlock()
			if first {
				select {
				case <-r.release:
				case <-time.After(400 * time.Millisecond):
				}
			}
		},
	}
}

type c39Out struct {
	Vals  string
	Bytes string
	Err   string
}

func (o c39Out) String() string {
	return fmt.Sprintf("values=%s bytes=%q error=%s", o.Vals, o.Bytes, o.Err)
}

func c39ErrStr(err error) string {
	if err == nil {
		return "<nil>"
	}
	return err.Error()
}

func c39NewEvaler(c c39Case, dir string, rec *c39Rec) (*eval.Evaler, error) {
	ev := elv.New()
	ev.LibDirs = []string{dir}
	elv.AddGoFns(ev, rec.fns())
	setup := c39Setup
	for _, k := range c.Preload {
		setup += "use m" + strconv.Itoa(k) + "\n"
	}
	if r := elv.Run(ev, setup); r.Err != nil {
		return nil, fmt.Errorf("harness: set-up failed: %v", r.Err)
	}
	return ev, nil
}

func c39RunOp(ev *eval.Evaler, g, idx int, op c39Op, first bool) c39Out {
	switch op.Kind {
	case "eval":
		r := elv.Run(ev, c39EvalCode(g, idx, op, first))
		return c39Out{elv.Reprs(r.Values), string(r.Bytes), c39ErrStr(r.Err)}
	case "call":
		fn, ok := ev.Global().Index(op.Fn + eval.FnSuffix)
		if !ok {
			return c39Out{Err: "harness: function " + op.Fn + " not found in the global namespace"}
		}
		callable, ok := fn.(eval.Callable)
		if !ok {
			return c39Out{Err: "harness: " + op.Fn + " is not callable"}
		}
		port, collect, err := eval.CapturePort()
		if err != nil {
			return c39Out{Err: "harness: " + err.Error()}
		}
		args := []any{strconv.Itoa(op.A)}
		if op.Fn == "shared-add" {
			args = append(args, strconv.Itoa(op.B))
		}
		cerr := ev.Call(callable, eval.CallCfg{Args: args, From: "[c39]"}, eval.EvalCfg{Ports: []*eval.Port{nil, port, nil}})
		values, bytes := collect()
		return c39Out{elv.Reprs(values), string(bytes), c39ErrStr(cerr)}
	case "check":
		perr, fixes, cerr := ev.Check(parse.Source{Name: "[c39check]", Code: c39CheckSrc(g, op)}, nil)
		return c39Out{Vals: fmt.Sprint(fixes), Err: c39ErrStr(perr) + " / " + c39ErrStr(cerr)}
	}
	return c39Out{Err: "harness: unknown op"}
}

func c39Desc(g, idx int, op c39Op, first bool) string {
	switch op.Kind {
	case "eval":
		return "Eval:\n" + c39EvalCode(g, idx, op, first)
	case "call":
		return fmt.Sprintf("Call %s %d %d", op.Fn, op.A, op.B)
	}
	return "Check: " + c39CheckSrc(g, op)
}

func c39FirstEval(ops []c39Op, idx int) bool {
	for i := 0; i < idx; i++ {
		if ops[i].Kind == "eval" {
			return false
		}
	}
	return ops[idx].Kind == "eval"
}

// c39Check runs the case here, or - for the regression case of a data-race
// finding, whose only symptom is the race detector's report on stderr - in a
// child process (the same, -race built, test binary) whose output it inspects.
func c39Check(c c39Case) error {
	if !c.Child {
		return c39CheckHere(c)
	}
	raw, _ := json.Marshal(c)
	cmd := exec.Command(os.Args[0], "-test.run", "^$")
	cmd.Env = append(os.Environ(), "VERIF_WORKER=c39child", "C39_CASE="+string(raw))
	out, err := cmd.CombinedOutput()
	s := string(out)
	if i := strings.Index(s, "WARNING: DATA RACE"); i >= 0 {
		return fmt.Errorf("the race detector reports a data race between concurrent evaluations:\n%s", c18Clip2(s[i:], 2500))
	}
	if i := strings.Index(s, "C39-CHILD-RESULT "); i >= 0 {
		var msg string
		json.Unmarshal([]byte(strings.SplitN(s[i+len("C39-CHILD-RESULT "):], "\n", 2)[0]), &msg)
		if msg == "" {
			return nil
		}
		return fmt.Errorf("%s", msg)
	}
	return fmt.Errorf("the interpreter process crashed (%v):\n%s", err, c18Clip2(s, 2500))
}

func init() {
	workers["c39child"] = func() int {
		var c c39Case
		if err := json.Unmarshal([]byte(os.Getenv("C39_CASE")), &c); err != nil {
			fmt.Println("bad case", err)
			return 2
		}
		c.Child = false
		msg := ""
		for round := 0; round < 5 && msg == ""; round++ {
			if err := c39CheckHere(c); err != nil {
				msg = err.Error()
			}
		}
		b, _ := json.Marshal(msg)
		fmt.Printf("C39-CHILD-RESULT %s\n", b)
		return 0
	}
}

func c39CheckHere(c c39Case) error {
	dir, err := os.MkdirTemp("", "verif-c39-")
	if err != nil {
		return nil
	}
	defer os.RemoveAll(dir)
	for k := 0; k < c39NMods; k++ {
		if err := os.WriteFile(filepath.Join(dir, "m"+strconv.Itoa(k)+".elv"), []byte(c39Module(k, c)), 0o644); err != nil {
			return nil
		}
	}
	if c.Procs >= 1 {
		defer runtime.GOMAXPROCS(runtime.GOMAXPROCS(c.Procs))
	}

	// reference: one sequential order of the same operations (goroutine 0's,
	// then goroutine 1's, ...) on a fresh interpreter with the same set-up; the
	// programs are independent, so every other order gives the same results
	want := make([][]c39Out, len(c.Gs))
	wantFin := make([]string, len(c.Gs))
	refEv, err := c39NewEvaler(c, dir, &c39Rec{})
	if err != nil {
		return err
	}
	for g, ops := range c.Gs {
		for i, op := range ops {
			want[g] = append(want[g], c39RunOp(refEv, g, i, op, c39FirstEval(ops, i)))
		}
	}
	for g, ops := range c.Gs {
		wantFin[g] = c39FinalOf(refEv, g, ops)
	}

	// the same operations concurrently on one interpreter
	rec := &c39Rec{slow: c.Slow, hold: c.Hold, release: make(chan struct{})}
	ev, err := c39NewEvaler(c, dir, rec)
	if err != nil {
		return err
	}
	got := make([][]c39Out, len(c.Gs))
	start := make(chan struct{})
	var wg sync.WaitGroup
	for g, ops := range c.Gs {
		got[g] = make([]c39Out, len(ops))
		wg.Add(1)
		go func(g int, ops []c39Op) {
			defer wg.Done()
			<-start
			for i, op := range ops {
				got[g][i] = c39RunOp(ev, g, i, op, c39FirstEval(ops, i))
				rec.opDone()
			}
		}(g, ops)
	}
	close(start)
	wg.Wait()

	for g, ops := range c.Gs {
		for i, op := range ops {
			if got[g][i] != want[g][i] {
				return fmt.Errorf("goroutine %d operation %d gives a result that no sequential order of the evaluations produces\n%s\nconcurrently:  %v\nsequentially:  %v", g, i, c39Desc(g, i, op, c39FirstEval(ops, i)), got[g][i], want[g][i])
			}
		}
	}
	rec.mu.Lock()
	loaded := rec.loaded
	rec.mu.Unlock()
	for k, n := range loaded {
		if n > 1 {
			return fmt.Errorf("the body of module m%d was evaluated %d times on one interpreter", k, n)
		}
	}
	for g, ops := range c.Gs {
		if fin := c39FinalOf(ev, g, ops); fin != wantFin[g] {
			return fmt.Errorf("after all goroutines finished, the globals of goroutine %d read %s, sequentially %s", g, fin, wantFin[g])
		}
	}
	// every background job ends by itself; once they have, the interpreter's
	// count of them is 0 in every sequential order
	bg := ""
	for i := 0; i < 500; i++ {
		r := elv.Run(ev, "put $num-bg-jobs")
		if r.Err != nil || len(r.Values) != 1 {
			return fmt.Errorf("cannot read $num-bg-jobs: %v %s", r.Err, elv.Reprs(r.Values))
		}
		if bg = fmt.Sprint(r.Values[0]); bg == "0" {
			break
		}
		time.Sleep(10 * time.Millisecond)
	}
	if bg != "0" {
		return fmt.Errorf("after all evaluations and all background jobs finished, $num-bg-jobs stays at %s (lost update of the shared counter)", bg)
	}
	return nil
}

// c39FinalOf reads back the goroutine's bookkeeping global.
func c39FinalOf(ev *eval.Evaler, g int, ops []c39Op) string {
	has := false
	for _, op := range ops {
		has = has || op.Kind == "eval"
	}
	if !has {
		return "-"
	}
	r := elv.Run(ev, "put $"+c39Prefix(g)+"fin")
	return elv.Reprs(r.Values) + " " + c39ErrStr(r.Err)
}

// ---- generator ------------------------------------------------------------------------------------

var c39SnipKinds = []string{"arith", "loop", "fn", "map", "list", "peach", "peachb", "runpar", "pipe", "bytes",
	"use", "use", "use", "uselocal", "uselocal", "closure", "tmp", "del", "try", "str", "eval", "shared", "sharedset", "bg", "bg", "sharedrw", "sharedrw", "gone", "gone", "special"}

func c39GenSnip(t *rapid.T) c39Snip {
	return c39Snip{
		T: rapid.SampledFrom(c39SnipKinds).Draw(t, "snip"),
		A: rapid.IntRange(1, 40).Draw(t, "a"), B: rapid.IntRange(0, 9).Draw(t, "b"), C: rapid.IntRange(0, 9).Draw(t, "c"),
		M: rapid.IntRange(0, c39NMods-1).Draw(t, "m"),
	}
}

// c39SharedMods: modules loaded by two or more goroutines and not preloaded.
func c39SharedMods(c c39Case) []int {
	pre := map[int]bool{}
	for _, k := range c.Preload {
		pre[k] = true
		if k == 7 {
			pre[6] = true
		}
	}
	users := map[int]map[int]bool{}
	for g, ops := range c.Gs {
		for _, op := range ops {
			for _, s := range op.Snips {
				for _, m := range c39ModsOf(s) {
					if users[m] == nil {
						users[m] = map[int]bool{}
					}
					users[m][g] = true
				}
			}
		}
	}
	var out []int
	for m := 0; m < c39NMods; m++ {
		if len(users[m]) >= 2 && !pre[m] {
			out = append(out, m)
		}
	}
	return out
}

func c39Gen(t *rapid.T) c39Case {
	c := c39Case{Procs: rapid.SampledFrom([]int{2, 4, 8, 16}).Draw(t, "procs"), Slow: rapid.Bool().Draw(t, "slow")}
	ng := rapid.IntRange(2, 8).Draw(t, "goroutines")
	for g := 0; g < ng; g++ {
		nops := rapid.IntRange(1, 3).Draw(t, "ops")
		var ops []c39Op
		for i := 0; i < nops; i++ {
			switch rapid.SampledFrom([]string{"eval", "eval", "eval", "eval", "call", "check"}).Draw(t, "kind") {
			case "eval":
				op := c39Op{Kind: "eval"}
				ns := rapid.IntRange(1, 4).Draw(t, "nsnips")
				for k := 0; k < ns; k++ {
					op.Snips = append(op.Snips, c39GenSnip(t))
				}
				if rapid.IntRange(0, 9).Draw(t, "fails") == 0 {
					op.Snips = append(op.Snips, c39Snip{T: "fail"})
				}
				ops = append(ops, op)
			case "call":
				ops = append(ops, c39Op{Kind: "call", Fn: rapid.SampledFrom([]string{"shared-add", "shared-par"}).Draw(t, "fn"),
					A: rapid.IntRange(0, 30).Draw(t, "a"), B: rapid.IntRange(0, 9).Draw(t, "b")})
			default:
				ops = append(ops, c39Op{Kind: "check", Src: rapid.SampledFrom([]string{"ok", "undef", "parse", "own", "setup"}).Draw(t, "src"),
					A: rapid.IntRange(0, 9).Draw(t, "a"), B: rapid.IntRange(0, 9).Draw(t, "b")})
			}
		}
		c.Gs = append(c.Gs, ops)
	}
	if rapid.IntRange(0, 3).Draw(t, "preload") == 0 {
		c.Preload = []int{rapid.IntRange(0, c39NMods-1).Draw(t, "pre")}
	}
	// While C39:concurrent-use-partial-module is open, a module that two
	// goroutines may load at the same time is imported by the set-up instead
	// (the goroutines then race on the module table only as readers).
	if shared := c39SharedMods(c); len(shared) > 0 && vs.KnownOpen("C39:concurrent-use-partial-module") {
		c.Preload = append(c.Preload, shared...)
		vs.Excluded("two goroutines importing the same not-yet-loaded module (open finding C39:concurrent-use-partial-module); the module is preloaded instead")
	}
	// While C39:toplevel-del-data-race is open, `del` of a global becomes `del`
	// of a variable local to a lambda.
	if vs.KnownOpen("C39:toplevel-del-data-race") {
		for _, ops := range c.Gs {
			for _, op := range ops {
				for i := range op.Snips {
					if op.Snips[i].T == "del" {
						op.Snips[i].T = "dellocal"
						vs.Excluded("del of a global variable during concurrent evaluations (open finding C39:toplevel-del-data-race)")
					}
				}
			}
		}
	}
	return c
}

func c39Class(c c39Case) (string, bool) {
	uses, par := 0, false
	for _, ops := range c.Gs {
		for _, op := range ops {
			for _, s := range op.Snips {
				if len(c39ModsOf(s)) > 0 {
					uses++
				}
				switch s.T {
				case "peach", "peachb", "runpar", "pipe", "bytes", "shared", "sharedset":
					par = true
				}
			}
		}
	}
	label := "plain"
	switch {
	case len(c39SharedMods(c)) > 0:
		label = "same-module-cold"
	case uses >= 2:
		label = "modules"
	}
	if par {
		label += "+parallel"
	}
	return label, len(c.Gs) >= 2
}

func init() {
	useM0 := []c39Op{{Kind: "eval", Snips: []c39Snip{{T: "use", A: 1, M: 0}}}}
	delOp := c39Op{Kind: "eval", Snips: []c39Snip{{T: "del", A: 1, B: 2}, {T: "del", A: 3, B: 4}, {T: "del", A: 5, B: 6}}}
	declOp := c39Op{Kind: "eval", Snips: []c39Snip{{T: "arith", A: 1, B: 2, C: 3}, {T: "closure"}}}
	evalOp := c39Op{Kind: "eval", Snips: []c39Snip{{T: "eval", A: 1, B: 2}, {T: "eval", A: 3, B: 4}}}
	var eight [][]c39Op
	for g := 0; g < 7; g++ {
		m := g // goroutines 0..5 import m0..m5, goroutine 6 imports m7 (which imports m6): all different, all cold
		if g == 6 {
			m = 7
		}
		eight = append(eight, []c39Op{{Kind: "eval", Snips: []c39Snip{{T: "use", A: 1, M: m}, {T: "uselocal", A: 2, M: m}}}, {Kind: "check", Src: "ok"}})
	}
	eight = append(eight, []c39Op{{Kind: "check", Src: "setup"}, {Kind: "check", Src: "undef"}, {Kind: "check", Src: "own"}})
	vs.Register(vs.Prop[c39Case]{
		Name: "C39/concurrent",
		Rule: "2..8 goroutines x 1..3 operations on one Evaler: Eval of 1-4 snippets (arithmetic, loops, fn, map/list assignment, closures, tmp, del, try, eval, str:, peach, bounded peach, run-parallel, one variable read and assigned by all callbacks of a peach, pipelines with byte and value stages, pipelines whose reader exits with more than a buffer of values outstanding, reads of the interpreter's own variables, `use` of one of 8 temp modules at top level or inside a lambda - m7 imports m6), Call of a set-up function (one of them runs peach), Check of valid / undefined-variable / unparsable sources; every program writes only globals with its goroutine's prefix; later programs of a goroutine read the globals of its earlier ones; GOMAXPROCS in {2,4,8,16}; module bodies optionally yield. Runs on the -race binary. Left out while open: two goroutines importing the same not-yet-loaded module (it is preloaded by the set-up instead). Non-trivial = every case (>= 2 goroutines)",
		Gen:  c39Gen, Check: c39Check, Class: c39Class,
		Quick: 110, Thorough: 1200, Timeout: 90 * time.Second, Race: true,
		Known: []vs.Known[c39Case]{
			// 7 goroutines importing different modules and one running Check, concurrently: the unguarded module table raced (race detector / concurrent map writes)
			{Key: "C39:modules-map-race", Case: c39Case{Procs: 8, Gs: eight}},
			// goroutines deleting their own globals while others declare variables / call eval:
			// delLocalVarOp writes the slot array shared with the published global namespace
			{Key: "C39:toplevel-del-data-race", Case: c39Case{Procs: 8, Child: true, Gs: [][]c39Op{
				{delOp, delOp, delOp}, {declOp, evalOp, declOp}, {delOp, delOp, delOp}, {evalOp, declOp, evalOp}}}},
			// two goroutines `use m0; put $m0:x` while the module body is held back
			{Key: "C39:concurrent-use-partial-module", Case: c39Case{Procs: 4, Hold: true, Gs: [][]c39Op{useM0, useM0}}},
		},
	})
}
