package props

// C40 Finished evaluations leave no file descriptors or goroutines behind.
//
// A case is a generated program made of pipelines (with producers, filters,
// stages that fail, stages that stop reading early), file and fd redirections,
// output captures, peach / run-parallel and optionally an interrupt delivered
// from inside the program. It starts no background job and opens no file
// explicitly. The program is evaluated twice to warm up, the process' open
// descriptors (/proc/self/fd) and goroutines (runtime.NumGoroutine) are
// counted, it is evaluated c40Runs more times with the garbage collector
// switched off (so that a finalizer cannot hide a leaked *os.File), and the
// counts must return to the baseline.

import (
	"context"
	"fmt"
	"os"
	"path/filepath"
	"runtime"
	"runtime/debug"
	"sort"
	"strings"
	"sync"
	"time"

	"pgregory.net/rapid"
	"src.elv.sh/pkg/eval"
	"src.elv.sh/pkg/eval/vars"
	"verif/elv"
	"verif/vs"
)

const c40Runs = 12

var c40Big = strings.Repeat("x", 2000)

// open findings whose shapes the generator leaves out (see known_findings.json)
const (
	c40KeyStdinLater = "C17:stdin-redirect-in-later-stage"
	c40KeyDangling   = "C42:dup-closed-by-reredirect"
	c40KeyOnlyValues = "C17:only-values-deadlock"
	c40KeyByteReader = "C17:byte-reader-ignores-values-deadlock"
)

type c40Case struct {
	Src  string   `json:"src"`  // the program; $f0 $f1 $fin $missing $nodir are paths in a fresh directory
	Feat []string `json:"feat"` // features the generator put in (for the histogram only)
}

// ---- generator ----------------------------------------------------------------

type c40Gen struct {
	t    *rapid.T
	feat map[string]bool
	// work bound: a stream-sized producer is never nested in a per-element
	// lambda, and a per-element lambda never follows a stream-sized producer
	nested   int
	curBig   bool
	curSmall bool // the current pipeline's producer writes at most 30 items
}

func (g *c40Gen) pick(label string, xs ...string) string {
	return rapid.SampledFrom(xs).Draw(g.t, label)
}

func (g *c40Gen) n(label string, lo, hi int) int { return rapid.IntRange(lo, hi).Draw(g.t, label) }

func (g *c40Gen) producer() string {
	k := g.n("producer", 0, 7)
	if g.nested > 0 && (k == 3 || k == 4) {
		k = 2
	}
	switch k {
	case 0:
		return "put a b c"
	case 1:
		return "echo line1\"\\n\"line2"
	case 2:
		return fmt.Sprintf("range %d", g.n("rangeN", 0, 60))
	case 3:
		g.feat["big-producer"] = true
		return "range 400" // more values than the channel buffers: blocks until the reader leaves
	case 4:
		g.feat["big-producer"] = true
		return "repeat 40 $big | to-lines" // 80 kB of bytes, more than a pipe buffers
	case 5:
		g.feat["fail"] = true
		return "fail producer"
	case 6:
		return "put [x y] [&k=v]; echo tail"
	default:
		return "{ put 1; echo 2; put 3 }"
	}
}

func (g *c40Gen) filter(depth int) string {
	k := g.n("filter", 0, 19)
	switch k {
	case 16:
		// builtins that capture the output of a callback: the capture must be
		// torn down when the callback fails, too
		g.feat["fail"] = true
		return "keep-if {|x| fail pred }"
	case 17:
		g.feat["fail"] = true
		return "order &key={|x| fail key }"
	case 18:
		g.feat["fail"] = true
		return "order &less-than={|a b| fail less }"
	case 19:
		return "keep-if {|x| put $true }"
	case 0:
		return "each {|x| put $x }"
	case 1:
		return "each {|x| echo $x }"
	case 2:
		g.feat["early-exit"] = true
		return "take 1"
	case 3:
		return "drop 1"
	case 4:
		return "count"
	case 5, 6:
		s := "slurp"
		if k == 6 {
			s = "from-lines"
		}
		if !g.curSmall && vs.KnownOpen(c40KeyByteReader) {
			// a command that reads only bytes deadlocks behind a producer of
			// more values than the channel buffers
			vs.Excluded("byte-only reader after a stage that may write more than 32 values (open finding " + c40KeyByteReader + ")")
			return "count"
		}
		return s
	case 7:
		return "to-lines"
	case 8:
		g.feat["peach"] = true
		return "peach {|x| put $x }"
	case 9:
		g.feat["peach"] = true
		return "peach &num-workers=2 {|x| echo $x }"
	case 10:
		g.feat["fail"] = true
		return "each {|x| fail boom }"
	case 11:
		g.feat["early-exit"] = true
		return "each {|x| break }"
	case 12:
		g.feat["early-exit"] = true
		return "nop" // never reads its input
	case 13:
		g.feat["fail"] = true
		return "fail stage"
	case 14:
		g.feat["peach"] = true
		g.feat["fail"] = true
		return "peach {|x| if (eq $x 2) { fail two } else { put $x } }"
	default:
		if depth > 0 && !g.curBig {
			g.nested++
			s := "each {|x| " + g.stmt(depth-1) + " }"
			g.nested--
			g.curSmall = false // the lambda may write several items per input
			return s
		}
		if vs.KnownOpen(c40KeyOnlyValues) {
			// only-values deadlocks when its output fails while upstream is still writing
			vs.Excluded("only-values in a pipeline whose output may fail (open finding " + c40KeyOnlyValues + ")")
			return "each {|x| put $x }"
		}
		return "only-values"
	}
}

// c40Bundle is a group of redirections for one stage that is safe by
// construction with respect to the open findings.
type c40Bundle struct {
	text      string
	firstOnly bool // redirects port 0: only on a stage that does not read from a pipe (open finding C17:stdin-redirect-in-later-stage)
	lastOnly  bool // re-redirects port 1 after duplicating it: only where port 1 is not the pipeline's own port (open finding C42:dup-closed-by-reredirect)
	fails     bool
}

var c40Bundles = []c40Bundle{
	{text: "> $f0"},
	{text: ">> $f1"},
	{text: "<> $f0"},
	{text: "2> $f1"},
	{text: "2>&1"},
	{text: ">&2"},
	{text: "> $f0 2>&1"},
	{text: "2>> $f1 3>&2"},
	{text: ">&-"},
	{text: "2>&-"},
	{text: "3>&1 4>&2"},
	{text: "5> $f1 >&5"},
	{text: "> $f0 > $f1"},      // the first file is displaced and must be closed
	{text: "> $f0 3> $f1 >&3"}, // displaced, and a file reachable through two fds
	// input comes from $fin, which no program writes: a stage that reads a file
	// while its own body appends to that file would legitimately never end
	{text: "< $fin", firstOnly: true},
	{text: "< $fin > $f0", firstOnly: true},
	{text: "0<&-", firstOnly: true},
	{text: "2>&1 > $f0", lastOnly: true},
	{text: "3>&1 >&- >&3", lastOnly: true},
	{text: "> $nodir/x", fails: true},
	{text: "> $f0 2> $nodir/x", fails: true},
	{text: "< $missing", fails: true},
	{text: "> $f1 9>&8", fails: true},
	{text: "> $f0 >&stdout", lastOnly: true}, // self-duplicate
	// an owned file duplicated onto an fd that did not exist before, then the
	// original fd redirected to another file: the ownership table grows while
	// the displaced file is handed over
	{text: "> $f0 3>&1 > $f1", lastOnly: true},
	{text: "> $f0 5>&1 >> $f1", lastOnly: true},
	{text: "2> $f0 4>&2 2> $f1"},
	{text: "3> $f0 7>&3 3> $f1"},
}

func (g *c40Gen) redirs(first, last bool) string {
	if g.n("redir?", 0, 9) < 5 {
		return ""
	}
	for try := 0; ; try++ {
		b := c40Bundles[g.n("bundle", 0, len(c40Bundles)-1)]
		if b.firstOnly && !first && vs.KnownOpen(c40KeyStdinLater) {
			vs.Excluded("port 0 of a stage reading from a pipe is redirected (open finding " + c40KeyStdinLater + ")")
			continue
		}
		if b.lastOnly && (!last || strings.Contains(b.text, "$f0 >&stdout")) && vs.KnownOpen(c40KeyDangling) {
			vs.Excluded("a form-owned port is re-redirected while a duplicate still refers to it (open finding " + c40KeyDangling + ")")
			continue
		}
		g.feat["redir"] = true
		if b.fails {
			g.feat["fail"] = true
		}
		return " " + b.text
	}
}

func (g *c40Gen) pipeline(depth int) string {
	n := g.n("stages", 1, 4)
	var parts []string
	saveBig, saveSmall := g.curBig, g.curSmall
	defer func() { g.curBig, g.curSmall = saveBig, saveSmall }()
	for i := 0; i < n; i++ {
		var s string
		if i == 0 {
			s = g.producer()
			g.curBig = saveBig || strings.Contains(s, "range 400") || strings.Contains(s, "$big")
			g.curSmall = !strings.HasPrefix(s, "range") && !strings.HasPrefix(s, "repeat")
			var rn int
			if _, err := fmt.Sscanf(s, "range %d", &rn); err == nil && rn <= 30 {
				g.curSmall = true
			}
			if strings.Contains(s, " | ") {
				// a producer that is itself a pipeline: redirections go to its last stage only
				parts = append(parts, s)
				continue
			}
		} else {
			s = g.filter(depth)
		}
		if strings.Contains(s, ";") && !strings.HasPrefix(s, "{") {
			s = "{ " + s + " }"
		}
		parts = append(parts, s+g.redirs(i == 0, i == n-1))
	}
	if n > 1 {
		g.feat["pipeline"] = true
	}
	return strings.Join(parts, " | ")
}

func (g *c40Gen) stmt(depth int) string {
	k := g.n("stmt", 0, 11)
	if depth <= 0 && k >= 4 {
		k = k % 4
	}
	switch k {
	case 0, 1, 2:
		return g.pipeline(depth)
	case 3:
		g.feat["capture"] = true
		return "nop (" + g.pipeline(depth-1) + ")"
	case 4:
		g.feat["capture"] = true
		return "nop ?(" + g.pipeline(depth-1) + ")"
	case 5:
		return "try { " + g.stmt(depth-1) + " } catch e { " + g.stmt(depth-1) + " } finally { " + g.stmt(depth-1) + " }"
	case 6:
		g.feat["peach"] = true
		return "run-parallel { " + g.stmt(depth-1) + " } { " + g.stmt(depth-1) + " }"
	case 7:
		g.feat["peach"] = true
		return "peach {|v| " + g.stmt(depth-1) + " } [1 2 3]"
	case 8:
		return "for v [a b] { " + g.stmt(depth-1) + " }"
	case 9:
		g.feat["capture"] = true
		return "var v" + fmt.Sprint(g.n("var", 0, 99)) + " = [(" + g.pipeline(depth-1) + ")]"
	case 10:
		return "{ defer { " + g.stmt(depth-1) + " }; " + g.stmt(depth-1) + " }"
	default:
		// an interrupt that arrives while another branch is blocked in sleep
		g.feat["interrupt"] = true
		switch g.n("int", 0, 3) {
		case 0:
			return "run-parallel { sleep 60 } { c40-cancel }"
		case 1:
			return "range 6 | each {|x| if (== $x 2) { c40-cancel }; put $x } | each {|y| sleep 0.001; put $y }" + g.redirs(false, true)
		case 2:
			return "c40-cancel; " + g.stmt(depth-1)
		default:
			return "put a b | peach {|x| if (eq $x a) { sleep 60 } else { c40-cancel } }"
		}
	}
}

func c40Generate(t *rapid.T) c40Case {
	g := &c40Gen{t: t, feat: map[string]bool{}}
	n := g.n("stmts", 1, 3)
	var stmts []string
	for i := 0; i < n; i++ {
		s := g.stmt(2)
		// every statement is independent: an exception in one does not stop the next
		stmts = append(stmts, "try { "+s+" } catch e { nop }")
	}
	var feat []string
	for k := range g.feat {
		feat = append(feat, k)
	}
	sort.Strings(feat)
	return c40Case{Src: strings.Join(stmts, "\n"), Feat: feat}
}

// ---- execution ----------------------------------------------------------------

var (
	c40Once   sync.Once
	c40Ev     *eval.Evaler
	c40Mu     sync.Mutex
	c40Cancel context.CancelFunc
)

func c40Evaler() *eval.Evaler {
	c40Once.Do(func() {
		c40Ev = elv.New()
		elv.AddGoFns(c40Ev, map[string]any{
			"c40-cancel": func() {
				c40Mu.Lock()
				f := c40Cancel
				c40Mu.Unlock()
				if f != nil {
					f()
				}
			},
		})
	})
	return c40Ev
}

func c40Fds() (int, []string) {
	ents, err := os.ReadDir("/proc/self/fd")
	if err != nil {
		return -1, nil
	}
	var links []string
	for _, e := range ents {
		l, err := os.Readlink("/proc/self/fd/" + e.Name())
		if err != nil {
			continue // the descriptor of the directory listing itself
		}
		links = append(links, l)
	}
	sort.Strings(links)
	return len(links), links
}

func c40RunOnce(ev *eval.Evaler, src string, global *eval.Ns) error {
	ctx, cancel := context.WithCancel(context.Background())
	c40Mu.Lock()
	c40Cancel = cancel
	c40Mu.Unlock()
	res := elv.RunCtx(ev, src, ctx, global)
	cancel()
	if res.Err != nil && !elv.IsException(res.Err) {
		return res.Err
	}
	return nil
}

func c40Check(c c40Case) error {
	ev := c40Evaler()
	// below the driver's per-run directory when there is one: it is removed
	// even if this process is killed by the watchdog
	dir, err := os.MkdirTemp(os.Getenv("VERIF_WORK"), "verif-c40-")
	if err != nil {
		dir, err = os.MkdirTemp("", "verif-c40-")
	}
	if err != nil {
		vs.Excluded("harness could not create a temporary directory")
		return nil
	}
	defer os.RemoveAll(dir)
	os.WriteFile(filepath.Join(dir, "f0"), []byte("line1\nline2\nline3\n"), 0o644)
	os.WriteFile(filepath.Join(dir, "f1"), []byte("x"), 0o644)
	os.WriteFile(filepath.Join(dir, "fin"), []byte("in1\nin2\nin3\n"), 0o644)
	newGlobal := func() *eval.Ns {
		return eval.BuildNs().
			AddVar("big", vars.NewReadOnly(c40Big)).
			AddVar("f0", vars.NewReadOnly(filepath.Join(dir, "f0"))).
			AddVar("f1", vars.NewReadOnly(filepath.Join(dir, "f1"))).
			AddVar("fin", vars.NewReadOnly(filepath.Join(dir, "fin"))).
			AddVar("missing", vars.NewReadOnly(filepath.Join(dir, "missing"))).
			AddVar("nodir", vars.NewReadOnly(filepath.Join(dir, "nodir"))).Ns()
	}
	for i := 0; i < 2; i++ {
		if err := c40RunOnce(ev, c.Src, newGlobal()); err != nil {
			return fmt.Errorf("generated program was rejected before running: %v\n%s", err, c.Src)
		}
	}
	c40Settle(-1, -1)
	runtime.GC()
	c40Settle(-1, -1)
	baseFd, baseLinks := c40Fds()
	baseG := runtime.NumGoroutine()
	if baseFd < 0 {
		return nil // no /proc: nothing to decide
	}

	old := debug.SetGCPercent(-1)
	defer debug.SetGCPercent(old)
	for i := 0; i < c40Runs; i++ {
		c40RunOnce(ev, c.Src, newGlobal())
	}
	fd, g := c40Settle(baseFd, baseG)
	if fd > baseFd || g > baseG {
		_, links := c40Fds()
		var stacks string
		if g > baseG {
			buf := make([]byte, 1<<20)
			stacks = c40FilterStacks(string(buf[:runtime.Stack(buf, true)]))
		}
		return fmt.Errorf("after %d evaluations the process has %d open descriptors (baseline %d) and %d goroutines (baseline %d); expected both back at the baseline\nprogram:\n%s\nnew descriptors: %v\n%s",
			c40Runs, fd, baseFd, g, baseG, c.Src, c40Diff(baseLinks, links), stacks)
	}
	return nil
}

// c40Settle waits until the counts are at most the targets (or, with negative
// targets, until they stop changing) and returns the last counts. The waiting
// is only for goroutines that are already on their way out; the limit is far
// above what that takes and is reached only when something really is left.
func c40Settle(wantFd, wantG int) (int, int) {
	deadline := time.Now().Add(15 * time.Second)
	if wantFd < 0 {
		deadline = time.Now().Add(300 * time.Millisecond)
	}
	prevFd, prevG, stable := -2, -2, 0
	for d := 200 * time.Microsecond; ; {
		runtime.Gosched()
		fd, _ := c40Fds()
		g := runtime.NumGoroutine()
		if wantFd >= 0 && fd <= wantFd && g <= wantG {
			return fd, g
		}
		if wantFd < 0 {
			if fd == prevFd && g == prevG {
				stable++
				if stable >= 3 {
					return fd, g
				}
			} else {
				stable = 0
			}
			prevFd, prevG = fd, g
		}
		if time.Now().After(deadline) {
			return fd, g
		}
		time.Sleep(d)
		if d < 50*time.Millisecond {
			d *= 2
		}
	}
}

func c40Diff(base, now []string) []string {
	cnt := map[string]int{}
	for _, l := range base {
		cnt[l]--
	}
	for _, l := range now {
		cnt[l]++
	}
	var out []string
	for l, n := range cnt {
		if n > 0 {
			out = append(out, fmt.Sprintf("%s x%d", l, n))
		}
	}
	sort.Strings(out)
	return out
}

// c40FilterStacks keeps the goroutines that run interpreter code.
func c40FilterStacks(all string) string {
	var keep []string
	for _, g := range strings.Split(all, "\n\n") {
		if strings.Contains(g, "src.elv.sh/") && !strings.Contains(g, "c40Check") {
			if len(g) > 1500 {
				g = g[:1500] + "…"
			}
			keep = append(keep, g)
		}
		if len(keep) >= 6 {
			break
		}
	}
	return "goroutines still running interpreter code:\n" + strings.Join(keep, "\n\n")
}

func c40Class(c c40Case) (string, bool) {
	has := map[string]bool{}
	for _, f := range c.Feat {
		has[f] = true
	}
	nt := has["pipeline"] || has["redir"] || has["capture"] || has["peach"] || has["interrupt"]
	for _, k := range []string{"interrupt", "early-exit", "fail", "peach", "redir", "capture", "pipeline"} {
		if has[k] {
			label := k
			if k != "redir" && has["redir"] {
				label += "+redir"
			}
			return label, nt
		}
	}
	return "plain", nt
}

func init() {
	vs.Register(vs.Prop[c40Case]{
		Name: "C40/leak",
		Rule: fmt.Sprintf("programs of 1..4 statements built from pipelines of 1..4 stages (producers incl. ones that overflow the pipe/channel buffers, filters incl. each/peach/take/slurp/from-lines, stages that fail, stop reading early or never read), per-stage redirection bundles (> >> <> < to files, n>&m, n>&-, failing opens, invalid fds), output and exception captures, try/catch/finally, defer, for, run-parallel, peach, and an interrupt raised from inside the program while a branch sleeps; no background jobs, no explicit file opens; each program is run 2x to warm up and then %d x with GC off; /proc/self/fd count and runtime.NumGoroutine must return to the baseline; non-trivial = has a pipeline, redirection, capture, peach or interrupt; class = most specific feature", c40Runs),
		Gen:  c40Generate, Check: c40Check, Class: c40Class,
		Quick: 220, Thorough: 2500,
		Timeout: 40 * time.Second,
	})
}
