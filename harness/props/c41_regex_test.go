package props

// C41/regex and C41/quote: see c41_test.go.

import (
	"regexp"
	"fmt"
	"strings"
	"unicode"
	"unicode/utf8"

	"pgregory.net/rapid"
	"src.elv.sh/pkg/eval/vals"
	"verif/elv"
	"verif/vs"
)

// ---- pattern generator --------------------------------------------------------

type c41REGen struct {
	t     *rapid.T
	posix bool // stay inside the POSIX ERE subset
	named bool // the named group w has been used
}

var c41RELits = []string{"a", "b", "a", "b", "c", "a", "b", "ab", "世", "é", " ", `\.`, "a", "b", `\$`, "-", "1", "A", `\n`}
var c41REClasses = []string{"[ab]", "[^a]", "[a-c]", "[世é]", "[[:alpha:]]", "[^ab]", "[b-]", "."}
var c41REPerlClasses = []string{`\d`, `\w`, `\s`, `\W`, `\pL`, `\b`, `\B`, `\A`, `\z`}
var c41REQuants = []string{"*", "+", "?", "{1,2}", "{2}", "{0,1}", "{0,}"}
var c41RELazy = []string{"*?", "+?", "??", "{1,2}?"}

func (g *c41REGen) alt(depth int) string {
	n := rapid.SampledFrom([]int{1, 1, 2, 1, 3}).Draw(g.t, "nalt")
	parts := make([]string, n)
	for i := range parts {
		parts[i] = g.concat(depth)
	}
	if n > 1 && rapid.IntRange(0, 7).Draw(g.t, "emptyalt") == 0 {
		parts[rapid.IntRange(0, n-1).Draw(g.t, "which")] = ""
	}
	if n == 2 && rapid.IntRange(0, 3).Draw(g.t, "prefixalt") == 0 && !strings.Contains(parts[0], "(?P<") {
		// a|ab: where leftmost-first and leftmost-longest differ
		parts[1] = parts[0] + g.atom(depth)
	}
	return strings.Join(parts, "|")
}

func (g *c41REGen) concat(depth int) string {
	n := rapid.SampledFrom([]int{1, 2, 3, 1, 2, 4}).Draw(g.t, "ncat")
	var sb strings.Builder
	for i := 0; i < n; i++ {
		sb.WriteString(g.qatom(depth))
	}
	return sb.String()
}

func (g *c41REGen) qatom(depth int) string {
	a, quantifiable := g.atomQ(depth)
	if !quantifiable {
		return a
	}
	switch k := rapid.IntRange(0, 9).Draw(g.t, "quant"); {
	case k < 4:
		return a + rapid.SampledFrom(c41REQuants).Draw(g.t, "q")
	case k == 4 && !g.posix:
		return a + rapid.SampledFrom(c41RELazy).Draw(g.t, "lazy")
	}
	return a
}

func (g *c41REGen) atom(depth int) string {
	a, _ := g.atomQ(depth)
	return a
}

func (g *c41REGen) atomQ(depth int) (string, bool) {
	k := rapid.IntRange(0, 15).Draw(g.t, "atom")
	switch {
	case k >= 12:
		return rapid.SampledFrom([]string{"a", "b", "a", "b", "c", "."}).Draw(g.t, "lit"), true
	case k < 5:
		l := rapid.SampledFrom(c41RELits).Draw(g.t, "lit")
		if utf8.RuneCountInString(strings.ReplaceAll(l, `\`, "")) > 1 {
			if g.posix {
				return l, false
			}
			return "(?:" + l + ")", true // a two-letter literal is quantified as a group
		}
		return l, true
	case k < 7:
		return rapid.SampledFrom(c41REClasses).Draw(g.t, "class"), true
	case k == 7 && !g.posix:
		c := rapid.SampledFrom(c41REPerlClasses).Draw(g.t, "perl")
		return c, !(c == `\b` || c == `\B` || c == `\A` || c == `\z`)
	case k == 8 && rapid.IntRange(0, 2).Draw(g.t, "anchor?") == 0:
		return rapid.SampledFrom([]string{"^", "$"}).Draw(g.t, "anchor"), false
	case depth > 0:
		inner := g.alt(depth - 1)
		switch gk := rapid.IntRange(0, 5).Draw(g.t, "group"); {
		case gk == 0 && !g.posix:
			return "(?:" + inner + ")", true
		case gk == 1 && !g.posix && !g.named:
			g.named = true
			return "(?P<w>" + inner + ")", true
		}
		return "(" + inner + ")", true
	}
	return rapid.SampledFrom(c41RELits[:5]).Draw(g.t, "lit"), true
}

// ---- the case -------------------------------------------------------------------

type c41RE struct {
	Pat     string `json:"pat"`
	Src     string `json:"src"`
	Repl    string `json:"repl"`
	Tmpl    string `json:"tmpl"`
	Max     int    `json:"max"`
	Longest bool   `json:"longest"`
	Posix   bool   `json:"posix"`
}

var c41RESrcAtoms = []string{"a", "b", "a", "b", "ab", "ba", "aab", "c", "a", "b", "世", "é", " ", "\n", ".", "1", "A", "-", "$", "bb"}
var c41RETmplAtoms = []string{"x", "-", " ", "世", "$$", "$1", "${1}", "$2", "${2}", "${1}x", "$0", "${0}", "$w", "${w}", ".", "$1-", "$10", "${10}", "$1x", "\\"}

func c41GenRE(t *rapid.T) c41RE {
	var c c41RE
	c.Posix = rapid.IntRange(0, 3).Draw(t, "posix") == 0
	g := &c41REGen{t: t, posix: c.Posix && rapid.IntRange(0, 4).Draw(t, "posixsafe") > 0}
	c.Pat = g.alt(2)
	if !g.posix {
		switch rapid.IntRange(0, 11).Draw(t, "flag") {
		case 0:
			c.Pat = "(?i)" + c.Pat
		case 1:
			c.Pat = "(?s)" + c.Pat
		}
	}
	n := rapid.SampledFrom([]int{4, 6, 3, 8, 5, 2, 10, 1, 7, 0, 12}).Draw(t, "nsrc")
	// the source favours the literal characters of the pattern
	var own []string
	for _, r := range c.Pat {
		if strings.ContainsRune("abc世é1A -.", r) {
			own = append(own, string(r))
		}
	}
	var sb strings.Builder
	for i := 0; i < n; i++ {
		if len(own) > 0 && rapid.IntRange(0, 2).Draw(t, "own?") > 0 {
			sb.WriteString(rapid.SampledFrom(own).Draw(t, "own"))
		} else {
			sb.WriteString(rapid.SampledFrom(c41RESrcAtoms).Draw(t, "src"))
		}
	}
	c.Src = sb.String()
	if !g.posix && rapid.IntRange(0, 7).Draw(t, "anchored") == 0 {
		// a pattern anchored at both ends (a plain literal, a quoted literal or
		// the generated pattern) against a source that contains the literal
		// several times: find, replace and split must all honour the anchors
		lit := rapid.SampledFrom([]string{"a", "ab", "b", "ba", "世", "a.b", "é", "ab", "a b", "-"}).Draw(t, "alit")
		inner := lit
		switch rapid.IntRange(0, 3).Draw(t, "akind") {
		case 0:
			inner = c.Pat
		case 1:
			inner = regexp.QuoteMeta(lit)
		}
		if rapid.IntRange(0, 3).Draw(t, "aform") == 0 {
			c.Pat = `\A` + inner + `\z`
		} else {
			c.Pat = "^" + inner + "$"
		}
		sep := rapid.SampledFrom([]string{"", "", " ", "\n", "x"}).Draw(t, "asep")
		k := rapid.IntRange(1, 3).Draw(t, "arep")
		c.Src = strings.TrimSuffix(strings.Repeat(lit+sep, k), sep)
	}
	c.Repl = rapid.SampledFrom([]string{"X", "", "$1", "<>", "世", "$$", "\\1", "${w}", "ab"}).Draw(t, "repl")
	nt := rapid.IntRange(0, 4).Draw(t, "ntmpl")
	var tb strings.Builder
	for i := 0; i < nt; i++ {
		tb.WriteString(rapid.SampledFrom(c41RETmplAtoms).Draw(t, "tmpl"))
	}
	c.Tmpl = tb.String()
	c.Max = rapid.SampledFrom([]int{2, 1, -1, 3, 0, 5, -3}).Draw(t, "max")
	c.Longest = rapid.Bool().Draw(t, "longest")
	return c
}

// ---- reading re:find results -----------------------------------------------------

type c41Span struct {
	start, end int
	text       string
}

type c41Match struct {
	c41Span
	groups []c41Span
}

func c41Int(v any) (int, bool) {
	i, ok := v.(int)
	return i, ok
}

func c41ReadSpan(v any, withText bool) (c41Span, error) {
	l, err := c41List(v)
	want := 2
	if withText {
		want = 3
	}
	if err != nil || len(l) < want {
		return c41Span{}, fmt.Errorf("bad span %s", vals.ReprPlain(v))
	}
	var sp c41Span
	var ok1, ok2 bool
	sp.start, ok1 = c41Int(l[0])
	sp.end, ok2 = c41Int(l[1])
	if !ok1 || !ok2 {
		return sp, fmt.Errorf("start/end are not integers in %s", vals.ReprPlain(v))
	}
	if withText {
		s, ok := l[2].(string)
		if !ok {
			return sp, fmt.Errorf("text is not a string in %s", vals.ReprPlain(v))
		}
		sp.text = s
	}
	return sp, nil
}

const c41FindCode = `| each {|m| put [$m[start] $m[end] $m[text] [(each {|g| put [$g[start] $g[end] $g[text]] } $m[groups])]] }`

func c41ReadMatches(vs_ []any, src string) ([]c41Match, error) {
	var out []c41Match
	prevEnd := 0
	for i, v := range vs_ {
		sp, err := c41ReadSpan(v, true)
		if err != nil {
			return nil, err
		}
		l, _ := c41List(v)
		if len(l) != 4 {
			return nil, fmt.Errorf("bad match %s", vals.ReprPlain(v))
		}
		if sp.start < 0 || sp.end < sp.start || sp.end > len(src) {
			return nil, fmt.Errorf("match %d has range [%d,%d) outside the source of %d bytes", i, sp.start, sp.end, len(src))
		}
		if sp.text != src[sp.start:sp.end] {
			return nil, fmt.Errorf("match %d: text %q is not source[%d:%d] = %q", i, sp.text, sp.start, sp.end, src[sp.start:sp.end])
		}
		if sp.start < prevEnd {
			return nil, fmt.Errorf("match %d starts at %d, before the end %d of the previous match", i, sp.start, prevEnd)
		}
		prevEnd = sp.end
		m := c41Match{c41Span: sp}
		gl, err := c41List(l[3])
		if err != nil {
			return nil, err
		}
		for j, gv := range gl {
			gs, err := c41ReadSpan(gv, true)
			if err != nil {
				return nil, err
			}
			if gs.start < 0 || gs.end < 0 {
				if gs.start != -1 || gs.end != -1 || gs.text != "" {
					return nil, fmt.Errorf("match %d group %d did not participate but is [%d,%d) %q", i, j, gs.start, gs.end, gs.text)
				}
			} else {
				if gs.start < sp.start || gs.end > sp.end || gs.end < gs.start {
					return nil, fmt.Errorf("match %d group %d [%d,%d) lies outside the match [%d,%d)", i, j, gs.start, gs.end, sp.start, sp.end)
				}
				if gs.text != src[gs.start:gs.end] {
					return nil, fmt.Errorf("match %d group %d: text %q is not source[%d:%d]", i, j, gs.text, gs.start, gs.end)
				}
			}
			m.groups = append(m.groups, gs)
		}
		if len(m.groups) == 0 || m.groups[0] != sp {
			return nil, fmt.Errorf("match %d: the first group is not the whole match: %s", i, vals.ReprPlain(v))
		}
		out = append(out, m)
	}
	return out, nil
}

// ---- references derived from the match list -----------------------------------

func c41Splice(src string, ms []c41Match, repl func(m c41Match) string) string {
	var sb strings.Builder
	pos := 0
	for _, m := range ms {
		sb.WriteString(src[pos:m.start])
		sb.WriteString(repl(m))
		pos = m.end
	}
	sb.WriteString(src[pos:])
	return sb.String()
}

// c41GroupNames scans a pattern produced by the generator: the number of
// capture groups and the index of the group named w (0 = none).
func c41GroupNames(pat string) (n int, w int) {
	for i := 0; i < len(pat); i++ {
		switch pat[i] {
		case '\\':
			i++
		case '[':
			// skip the class; "[[:alpha:]]" nests one level
			i++
			for i < len(pat) && pat[i] != ']' {
				if pat[i] == '[' {
					for i < len(pat) && pat[i] != ']' {
						i++
					}
				}
				i++
			}
		case '(':
			if strings.HasPrefix(pat[i:], "(?P<w>") {
				n++
				w = n
			} else if !strings.HasPrefix(pat[i:], "(?") {
				n++
			}
		}
	}
	return
}

// c41NameLen: length of the longest prefix of s made of letters, digits and
// underscores ("letters" and "digits" in the Unicode sense).
func c41NameLen(s string) int {
	n := 0
	for n < len(s) {
		r, w := utf8.DecodeRuneInString(s[n:])
		if r != '_' && !unicode.IsLetter(r) && !unicode.IsDigit(r) {
			break
		}
		n += w
	}
	return n
}

// c41Expand expands a replacement template as documented for re:replace.
// ok=false if the template is outside what the documentation defines: a "$"
// not followed by "$", a name or "{name}", or a reference to a group that
// does not exist.
func c41Expand(tmpl string, m c41Match, w int) (string, bool) {
	var sb strings.Builder
	for i := 0; i < len(tmpl); {
		if tmpl[i] != '$' {
			sb.WriteByte(tmpl[i])
			i++
			continue
		}
		i++
		if i >= len(tmpl) {
			return "", false
		}
		var name string
		switch {
		case tmpl[i] == '$':
			sb.WriteByte('$')
			i++
			continue
		case tmpl[i] == '{':
			j := i + 1 + c41NameLen(tmpl[i+1:])
			if j == i+1 || j >= len(tmpl) || tmpl[j] != '}' {
				return "", false
			}
			name = tmpl[i+1 : j]
			i = j + 1
		default:
			j := i + c41NameLen(tmpl[i:])
			if j == i {
				return "", false
			}
			name = tmpl[i:j]
			i = j
		}
		idx, numeric := 0, true
		for k := 0; k < len(name); k++ {
			if name[k] < '0' || name[k] > '9' {
				numeric = false
				break
			}
			idx = idx*10 + int(name[k]-'0')
		}
		switch {
		case numeric && (len(name) > 1 && name[0] == '0'):
			return "", false
		case numeric:
			if idx >= len(m.groups) {
				return "", false
			}
		case name == "w" && w > 0:
			idx = w
		default:
			return "", false
		}
		sb.WriteString(m.groups[idx].text)
	}
	return sb.String(), true
}

// c41RESplit: the pieces between the matches; at most max pieces when max > 0.
// The documentation says nothing about empty matches at the very start or end
// of the source: keepLead/keepTrail choose whether they delimit an empty piece.
func c41RESplit(src string, ms []c41Match, max int, keepLead, keepTrail bool) []string {
	if max == 0 {
		return nil
	}
	var out []string
	beg := 0
	lastStart := -1
	for _, m := range ms {
		if max > 0 && len(out) == max-1 {
			break
		}
		lastStart = m.start
		if m.end == 0 && !keepLead {
			continue
		}
		out = append(out, src[beg:m.start])
		beg = m.end
	}
	if lastStart == len(src) && !keepTrail {
		return out
	}
	return append(out, src[beg:])
}

func c41RESplitOK(got []string, src string, ms []c41Match, max int) ([]string, bool) {
	var first []string
	for _, kl := range []bool{false, true} {
		for _, kt := range []bool{false, true} {
			want := c41RESplit(src, ms, max, kl, kt)
			if first == nil {
				first = want
			}
			if c41EqStrs(got, want) {
				return nil, true
			}
		}
	}
	return first, false
}

// ---- the check --------------------------------------------------------------------

func c41REVars(c c41RE) map[string]any {
	return map[string]any{"pat": c.Pat, "src": c.Src, "repl": c.Repl, "tmpl": c.Tmpl, "max": c.Max,
		"longest": c.Longest, "posix": c.Posix, "other": !c.Longest}
}

// c41REMemo keeps the outputs of the last case: Class and Check look at the
// same evaluation (a pure cache: the result only depends on the case).
var c41REMemo struct {
	valid bool
	c     c41RE
	g     [][]any
	err   error
}

func c41REEval(c c41RE) ([][]any, error) {
	if c41REMemo.valid && c41REMemo.c == c {
		return c41REMemo.g, c41REMemo.err
	}
	g, err := c41REEval1(c)
	c41REMemo.valid, c41REMemo.c, c41REMemo.g, c41REMemo.err = true, c, g, err
	return g, err
}

func c41REEval1(c c41RE) ([][]any, error) {
	return c41RunGroups(c41REVars(c), `
		re:find &posix=$posix &longest=$longest $pat $src `+c41FindCode+`
		put $nil
		re:match &posix=$posix $pat $src
		put $nil
		re:find &posix=$posix &longest=$longest &max=$max $pat $src `+c41FindCode+`
		put $nil
		re:replace &posix=$posix &longest=$longest &literal=$true $pat $repl $src
		re:replace &posix=$posix &longest=$longest $pat {|m| put '<'$m'>' } $src
		re:replace &posix=$posix &longest=$longest $pat $tmpl $src
		put $nil
		re:split &posix=$posix &longest=$longest $pat $src
		put $nil
		re:split &posix=$posix &longest=$longest &max=$max $pat $src
		put $nil
		re:find &posix=$posix &longest=$other &max=1 $pat $src `+c41FindCode+`
		put $nil
		re:find &posix=$posix &longest=$longest $pat $src `+c41FindCode+`
	`)
}

func c41CheckRE(c c41RE) error {
	in := fmt.Sprintf("pat=%q src=%q repl=%q tmpl=%q max=%d longest=%v posix=%v", c.Pat, c.Src, c.Repl, c.Tmpl, c.Max, c.Longest, c.Posix)
	g, err := c41REEval(c)
	if err != nil {
		if !elv.IsException(err) {
			return fmt.Errorf("evaluation failed with %v\n%s", err, in)
		}
		// The pattern does not compile (or something threw): then every builtin
		// must reject it.
		for _, code := range []string{
			`re:find &posix=$posix &longest=$longest $pat $src`,
			`re:match &posix=$posix $pat $src`,
			`re:replace &posix=$posix &longest=$longest $pat $repl $src`,
			`re:split &posix=$posix &longest=$longest $pat $src`,
		} {
			out, err2 := c41Run(c41REVars(c), code)
			if err2 == nil {
				return fmt.Errorf("the builtins disagree about the pattern: one threw %v, but `%s` gave %s\n%s", err, code, elv.Reprs(out), in)
			}
		}
		return nil
	}
	if len(g) != 8 || len(g[1]) != 1 || len(g[3]) != 3 || len(g[6]) > 1 {
		return fmt.Errorf("unexpected outputs %v\n%s", g, in)
	}
	ms, err := c41ReadMatches(g[0], c.Src)
	if err != nil {
		return fmt.Errorf("re:find: %v\n%s", err, in)
	}
	ngroups, w := c41GroupNames(c.Pat)
	for i, m := range ms {
		if len(m.groups) != ngroups+1 {
			return fmt.Errorf("re:find: match %d has %d groups, the pattern has %d capture groups\n%s", i, len(m.groups)-1, ngroups, in)
		}
	}
	show := func() string {
		var parts []string
		for _, m := range ms {
			parts = append(parts, fmt.Sprintf("[%d,%d)", m.start, m.end))
		}
		return "re:find matches " + strings.Join(parts, " ")
	}
	// re:match
	if err := c41Want("re:match", g[1][0], len(ms) > 0, show()+"\n"+in); err != nil {
		return err
	}
	// &max
	limited, err := c41ReadMatches(g[2], c.Src)
	if err != nil {
		return fmt.Errorf("re:find &max: %v\n%s", err, in)
	}
	wantN := len(ms)
	if c.Max >= 0 && c.Max < wantN {
		wantN = c.Max
	}
	if len(limited) != wantN {
		return fmt.Errorf("re:find &max=%d gave %d matches, without &max %d\n%s", c.Max, len(limited), len(ms), in)
	}
	for i := range limited {
		if limited[i].c41Span != ms[i].c41Span {
			return fmt.Errorf("re:find &max=%d: match %d is [%d,%d), without &max [%d,%d)\n%s", c.Max, i, limited[i].start, limited[i].end, ms[i].start, ms[i].end, in)
		}
	}
	// re:replace
	if err := c41Want("re:replace &literal", g[3][0], c41Splice(c.Src, ms, func(c41Match) string { return c.Repl }), show()+"\n"+in); err != nil {
		return err
	}
	if err := c41Want("re:replace with a function", g[3][1], c41Splice(c.Src, ms, func(m c41Match) string { return "<" + m.text + ">" }), show()+"\n"+in); err != nil {
		return err
	}
	tmplOK := true
	wantT := c41Splice(c.Src, ms, func(m c41Match) string {
		s, ok := c41Expand(c.Tmpl, m, w)
		if !ok {
			tmplOK = false
		}
		return s
	})
	if tmplOK {
		if err := c41Want("re:replace with a template", g[3][2], wantT, show()+"\n"+in); err != nil {
			return err
		}
	}
	// re:split
	for k, max := range []int{-1, c.Max} {
		got := make([]string, 0, len(g[4+k]))
		for _, v := range g[4+k] {
			s, ok := v.(string)
			if !ok {
				return fmt.Errorf("re:split output %s is not a string\n%s", vals.ReprPlain(v), in)
			}
			got = append(got, s)
		}
		if want, ok := c41RESplitOK(got, c.Src, ms, max); !ok {
			return fmt.Errorf("re:split &max=%d = %q, the pieces between the matches are %q\n%s\n%s", max, got, want, show(), in)
		}
	}
	if err := c41Leftmost(c, ms, in); err != nil {
		return err
	}
	// &longest: same leftmost start, not shorter; POSIX is always leftmost-longest
	other, err := c41ReadMatches(g[6], c.Src)
	if err != nil {
		return fmt.Errorf("re:find &longest=%v: %v\n%s", !c.Longest, err, in)
	}
	if (len(other) > 0) != (len(ms) > 0) {
		return fmt.Errorf("re:find &longest=%v finds %d matches but &longest=%v finds %d\n%s", c.Longest, len(ms), !c.Longest, len(other), in)
	}
	if len(ms) > 0 {
		lo, sh := ms[0], other[0]
		if !c.Longest {
			lo, sh = other[0], ms[0]
		}
		if lo.start != sh.start || lo.end < sh.end {
			return fmt.Errorf("first match with &longest is [%d,%d), without [%d,%d): not the same leftmost start or shorter\n%s", lo.start, lo.end, sh.start, sh.end, in)
		}
		if c.Posix && lo.c41Span != sh.c41Span {
			return fmt.Errorf("&posix is leftmost-longest, but &longest changes the first match from [%d,%d) to [%d,%d)\n%s", sh.start, sh.end, lo.start, lo.end, in)
		}
	}
	// the same re:find call again, after calls with the opposite &longest on the
	// same pattern: the builtins must agree with one another on match positions
	// whatever was called before
	if len(g) > 7 {
		again, err := c41ReadMatches(g[7], c.Src)
		if err != nil {
			return fmt.Errorf("re:find repeated: %v\n%s", err, in)
		}
		if len(again) != len(ms) {
			return fmt.Errorf("re:find &longest=%v found %d matches, the same call after a call with &longest=%v on the same pattern finds %d\n%s", c.Longest, len(ms), !c.Longest, len(again), in)
		}
		for i := range ms {
			if ms[i].c41Span != again[i].c41Span {
				return fmt.Errorf("re:find &longest=%v: match %d was [%d,%d), the same call after a call with &longest=%v on the same pattern gives [%d,%d)\n%s", c.Longest, i, ms[i].start, ms[i].end, !c.Longest, again[i].start, again[i].end, in)
			}
		}
	}
	return nil
}

// c41Leftmost checks the first match against re:match used as a yes/no oracle
// on substrings (which does not depend on the match-selection rule): the text
// of the match matches the whole pattern; no match of the pattern starts before
// it; with &longest or &posix no longer match starts at the same place. Only for
// patterns without assertions (^ $ \b \B \A \z), whose meaning would change on
// a substring.
func c41Leftmost(c c41RE, ms []c41Match, in string) error {
	if len(ms) == 0 || strings.ContainsAny(c.Pat, "^$") || strings.Contains(c.Pat, `\b`) || strings.Contains(c.Pat, `\B`) || strings.Contains(c.Pat, `\A`) || strings.Contains(c.Pat, `\z`) {
		return nil
	}
	if c.Posix && strings.Contains(c.Src, "\n") {
		return nil // POSIX syntax has no text anchors: ^ and $ also match at line ends
	}
	first := ms[0]
	tails, longer := vals.EmptyList, vals.EmptyList
	nt, nl := 0, 0
	for s := 0; s < first.start; s++ {
		if utf8.RuneStart(c.Src[s]) {
			tails = tails.Conj(c.Src[s:])
			nt++
		}
	}
	if c.Longest || c.Posix {
		for e := first.end + 1; e <= len(c.Src); e++ {
			if e == len(c.Src) || utf8.RuneStart(c.Src[e]) {
				longer = longer.Conj(c.Src[first.start:e])
				nl++
			}
		}
	}
	g, err := c41RunGroups(map[string]any{"pat": c.Pat, "posix": c.Posix, "tails": tails, "longer": longer, "m": first.text}, `
		re:match &posix=$posix '^('$pat')$' $m
		put $nil
		each {|s| re:match &posix=$posix '^('$pat')' $s } $tails
		put $nil
		each {|s| re:match &posix=$posix '^('$pat')$' $s } $longer
	`)
	if err != nil || len(g) != 3 || len(g[0]) != 1 || len(g[1]) != nt || len(g[2]) != nl {
		return fmt.Errorf("re:match on substrings threw %v (outputs %v)\n%s", err, g, in)
	}
	if g[0][0] != true {
		return fmt.Errorf("re:find reports the match [%d,%d) %q, but re:match says the pattern does not match that text\n%s", first.start, first.end, first.text, in)
	}
	k := 0
	for s := 0; s < first.start; s++ {
		if utf8.RuneStart(c.Src[s]) {
			if g[1][k] != false {
				return fmt.Errorf("re:find reports its first match at %d, but re:match finds a match starting at %d\n%s", first.start, s, in)
			}
			k++
		}
	}
	k = 0
	for e := first.end + 1; e <= len(c.Src) && k < nl; e++ {
		if e == len(c.Src) || utf8.RuneStart(c.Src[e]) {
			if g[2][k] != false {
				return fmt.Errorf("leftmost-longest: re:find reports the first match [%d,%d), but the pattern also matches the longer [%d,%d)\n%s", first.start, first.end, first.start, e, in)
			}
			k++
		}
	}
	return nil
}

func c41ClassRE(c c41RE) (string, bool) {
	g, err := c41REEval(c)
	if err != nil || len(g) == 0 {
		if c.Posix {
			return "posix-compile-error", false
		}
		return "compile-error", false
	}
	ms, err := c41ReadMatches(g[0], c.Src)
	if err != nil {
		return "bad-find-output", true
	}
	empty, groups := false, false
	for _, m := range ms {
		if m.start == m.end {
			empty = true
		}
		if len(m.groups) > 1 {
			groups = true
		}
	}
	p := ""
	if c.Posix {
		p = "posix/"
	}
	switch {
	case len(ms) == 0:
		return p + "no-match", false
	case empty:
		return p + "empty-matches", true
	case len(ms) > 1 && groups:
		return p + "multi-match+groups", true
	case len(ms) > 1:
		return p + "multi-match", true
	case groups:
		return p + "one-match+groups", true
	}
	return p + "one-match", true
}

// ---- C41/quote --------------------------------------------------------------------

type c41Quote struct {
	Lit string `json:"lit"`
	Ctx string `json:"ctx"`
}

var c41QuoteAtoms = []string{".", "*", "+", "?", "(", ")", "[", "]", "{", "}", "|", "^", "$", `\`, "-", "a", "b", "a", "世", "\n", " ", `\d`, `\Q`, `\E`, "é", "\U0001F600", "\x00", "1", ",", "#", "&", "~", "/", "(?i)", "[a-z]", "{2}", "\t", "́", "<", ":", "=", "!", "%", "@", "'", "\"", "`", ";", "_"}

func c41GenQuote(t *rapid.T) c41Quote {
	var c c41Quote
	n := rapid.IntRange(0, 5).Draw(t, "nlit")
	var sb strings.Builder
	for i := 0; i < n; i++ {
		sb.WriteString(rapid.SampledFrom(c41QuoteAtoms).Draw(t, "lit"))
	}
	c.Lit = sb.String()
	rnd := func(label string) string {
		k := rapid.IntRange(0, 3).Draw(t, label+"#")
		var sb strings.Builder
		for i := 0; i < k; i++ {
			sb.WriteString(rapid.SampledFrom(c41QuoteAtoms).Draw(t, label))
		}
		return sb.String()
	}
	switch rapid.IntRange(0, 5).Draw(t, "ctxk") {
	case 0:
		c.Ctx = rnd("pre") + c.Lit + rnd("post")
	case 1:
		c.Ctx = c.Lit + rnd("mid") + c.Lit + c.Lit
	case 2:
		// near miss: every character that is special in a pattern replaced by x
		c.Ctx = rnd("pre") + strings.Map(func(r rune) rune {
			if strings.ContainsRune(`.*+?()[]{}|^$\-`, r) {
				return 'x'
			}
			return r
		}, c.Lit) + rnd("post")
	case 3:
		c.Ctx = c.Lit
	case 4:
		// what the literal would match if it were a pattern
		c.Ctx = rnd("pre") + "aab1" + rnd("post")
	default:
		c.Ctx = rnd("ctx")
	}
	return c
}

func c41CheckQuote(c c41Quote) error {
	in := fmt.Sprintf("lit=%q ctx=%q", c.Lit, c.Ctx)
	g, err := c41RunGroups(map[string]any{"lit": c.Lit, "ctx": c.Ctx}, `
		var q = (re:quote $lit)
		put $q
		re:match $q $ctx
		re:match '^(?:'$q')$' $ctx
		re:match '^(?:'$q')$' $lit
		re:match &posix=$true $q $ctx
		put $nil
		re:find $q $ctx | each {|m| put [$m[start] $m[end] $m[text]] }
		put $nil
		re:split $q $ctx
		put $nil
		re:replace $q '' $ctx
	`)
	if err != nil {
		return fmt.Errorf("quoted pattern was rejected or threw: %v\n%s", err, in)
	}
	if len(g) != 4 || len(g[0]) != 5 || len(g[3]) != 1 {
		return fmt.Errorf("unexpected outputs %v\n%s", g, in)
	}
	in = fmt.Sprintf("%s quoted=%s", in, vals.ReprPlain(g[0][0]))
	contains := c41IndexFrom(c.Ctx, c.Lit, 0) >= 0
	if err := c41Want("re:match (re:quote lit) ctx", g[0][1], contains, in); err != nil {
		return err
	}
	if err := c41Want("re:match ^(re:quote lit)$ ctx", g[0][2], c.Ctx == c.Lit, in); err != nil {
		return err
	}
	if err := c41Want("re:match ^(re:quote lit)$ lit", g[0][3], true, in); err != nil {
		return err
	}
	if err := c41Want("re:match &posix (re:quote lit) ctx", g[0][4], contains, in); err != nil {
		return err
	}
	if c.Lit == "" {
		return nil
	}
	// occurrences, leftmost and non-overlapping
	var want []int
	for pos := 0; ; {
		i := c41IndexFrom(c.Ctx, c.Lit, pos)
		if i < 0 {
			break
		}
		want = append(want, i)
		pos = i + len(c.Lit)
	}
	if len(g[1]) != len(want) {
		return fmt.Errorf("re:find (re:quote lit) ctx finds %d matches, the literal occurs %d times (at %v)\n%s", len(g[1]), len(want), want, in)
	}
	for i, v := range g[1] {
		sp, err := c41ReadSpan(v, true)
		if err != nil {
			return fmt.Errorf("re:find: %v\n%s", err, in)
		}
		if sp.start != want[i] || sp.end != want[i]+len(c.Lit) || sp.text != c.Lit {
			return fmt.Errorf("re:find (re:quote lit) ctx: match %d is [%d,%d) %q, the literal occurs at %d\n%s", i, sp.start, sp.end, sp.text, want[i], in)
		}
	}
	var pieces []string
	for _, v := range g[2] {
		s, _ := v.(string)
		pieces = append(pieces, s)
	}
	if wantP := c41Split(c.Ctx, c.Lit, -1); !c41EqStrs(pieces, wantP) {
		return fmt.Errorf("re:split (re:quote lit) ctx = %q, splitting at the literal gives %q\n%s", pieces, wantP, in)
	}
	return c41Want("re:replace (re:quote lit) '' ctx", g[3][0], c41Replace(c.Ctx, c.Lit, "", -1), in)
}

func c41ClassQuote(c c41Quote) (string, bool) {
	meta := strings.ContainsAny(c.Lit, `.*+?()[]{}|^$\`)
	n := 0
	if c.Lit != "" {
		n = c41Count(c.Ctx, c.Lit)
	}
	switch {
	case c.Lit == "":
		return "empty-literal", false
	case meta && n > 0:
		return "metachars/occurs", true
	case meta:
		return "metachars/absent", true
	case n > 0:
		return "plain/occurs", true
	}
	return "plain/absent", true
}

func init() {
	vs.Register(vs.Prop[c41RE]{
		Name:  "C41/regex",
		Rule:  "patterns from a grammar (literals, classes, Perl classes, anchors, capturing / non-capturing / named groups to depth 2, alternation incl. empty and prefix alternatives a|ab, greedy and lazy quantifiers, (?i)/(?s)); &posix on a quarter of the cases (mostly with patterns from the POSIX subset); sources of 0-10 atoms over the pattern alphabet; literal replacement, function replacement and templates built from documented pieces ($1 ${1} $w $$ $10 $1x); &max from {-3,-1,0,1,2,3,5}; &longest both ways; non-trivial = the pattern compiles and matches",
		Gen:   c41GenRE,
		Check: c41CheckRE,
		Class: c41ClassRE,
		Quick: 2500, Thorough: 25000,
	})
	vs.Register(vs.Prop[c41Quote]{
		Name:  "C41/quote",
		Rule:  "literals of 0-5 atoms, mostly regex metacharacters and fragments (\\d, \\Q, \\E, (?i), [a-z], {2}), also NUL, astral and combining characters; context = literal embedded, repeated, a near miss with the metacharacters replaced, the literal itself, text the unquoted literal would match, or unrelated; non-trivial = non-empty literal",
		Gen:   c41GenQuote,
		Check: c41CheckQuote,
		Class: c41ClassQuote,
		Quick: 2500, Thorough: 25000,
	})
}
