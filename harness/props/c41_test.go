package props

// C41 String and regex builtins satisfy their algebraic laws (through the
// evaluator: `use str; use re` and the builtins called with variables).
//
// Sub-checks and oracles:
//   C41/bytes       str:split / str:join round trip and a naive reference for
//                   split (incl. &max), replace, contains, index, last-index,
//                   count, has-prefix/suffix, trim-prefix/suffix, compare,
//                   repeat on arbitrary byte strings.
//   C41/codepoints  to-codepoints/from-codepoints and to-utf8-bytes/
//                   from-utf8-bytes round trips against a hand-written UTF-8
//                   encoder; invalid code points / byte sequences are rejected.
//   C41/unicode     to-upper/lower/title, title, equal-fold, trim*, trim-space,
//                   fields, contains-any, index-any against definitions written
//                   here over the unicode tables (per-code-point mapping,
//                   SimpleFold orbits, White_Space).
//   C41/regex       re:quote matches exactly the literal (naive substring
//                   search); re:find / re:match / re:replace (literal, function,
//                   template) / re:split / &max / &longest agree on the match
//                   positions reported by re:find; compile errors are common to
//                   all of them.
//
// No reference uses the strings / regexp function it checks (strings.Builder and
// strings.Join only assemble text).

import (
	"fmt"
	"sort"
	"strconv"
	"strings"
	"sync"
	"unicode"
	"unicode/utf8"

	"pgregory.net/rapid"
	"src.elv.sh/pkg/eval"
	"src.elv.sh/pkg/eval/vals"
	"src.elv.sh/pkg/eval/vars"
	"verif/elv"
	"verif/gen"
	"verif/vs"
)

// ---- evaluation helper ----------------------------------------------------------

var (
	c41Once sync.Once
	c41Ev   *eval.Evaler
	c41Mu   sync.Mutex
)

// c41Run evaluates code with the given variables in a fresh global namespace.
func c41Run(vs_ map[string]any, code string) ([]any, error) {
	c41Once.Do(func() { c41Ev = elv.New() })
	c41Mu.Lock()
	defer c41Mu.Unlock()
	nb := eval.BuildNs()
	names := make([]string, 0, len(vs_))
	for k := range vs_ {
		names = append(names, k)
	}
	sort.Strings(names)
	for _, k := range names {
		nb = nb.AddVar(k, vars.FromInit(vs_[k]))
	}
	r := elv.RunCtx(c41Ev, "use str; use re\n"+code, nil, nb.Ns())
	return r.Values, r.Err
}

// c41RunGroups is c41Run with the outputs split at the $nil values the code
// puts between commands (none of the builtins under test outputs $nil).
func c41RunGroups(vs_ map[string]any, code string) ([][]any, error) {
	out, err := c41Run(vs_, code)
	groups := [][]any{nil}
	for _, v := range out {
		if v == nil {
			groups = append(groups, nil)
			continue
		}
		groups[len(groups)-1] = append(groups[len(groups)-1], v)
	}
	return groups, err
}

func c41List(v any) ([]any, error) {
	if _, ok := v.(vals.List); !ok {
		return nil, fmt.Errorf("not a list: %s", vals.ReprPlain(v))
	}
	var out []any
	vals.Iterate(v, func(x any) bool { out = append(out, x); return true })
	return out, nil
}

func c41Strs(v any) ([]string, error) {
	l, err := c41List(v)
	if err != nil {
		return nil, err
	}
	out := make([]string, len(l))
	for i, x := range l {
		s, ok := x.(string)
		if !ok {
			return nil, fmt.Errorf("element %d is not a string: %s", i, vals.ReprPlain(x))
		}
		out[i] = s
	}
	return out, nil
}

func c41EqStrs(a, b []string) bool {
	if len(a) != len(b) {
		return false
	}
	for i := range a {
		if a[i] != b[i] {
			return false
		}
	}
	return true
}

func c41Want(what string, got any, want any, input string) error {
	if g, ok := got.(string); ok {
		if w, ok := want.(string); ok {
			if g == w {
				return nil
			}
			return fmt.Errorf("%s = %q, reference %q\n%s", what, g, w, input)
		}
	}
	if got != want {
		return fmt.Errorf("%s = %s, reference %v\n%s", what, vals.ReprPlain(got), want, input)
	}
	return nil
}

// ---- naive references over bytes ---------------------------------------------

func c41HasPrefix(s, p string) bool { return len(s) >= len(p) && s[:len(p)] == p }
func c41HasSuffix(s, p string) bool { return len(s) >= len(p) && s[len(s)-len(p):] == p }

func c41IndexFrom(s, sub string, from int) int {
	for i := from; i+len(sub) <= len(s); i++ {
		if s[i:i+len(sub)] == sub {
			return i
		}
	}
	return -1
}

func c41LastIndex(s, sub string) int {
	for i := len(s) - len(sub); i >= 0; i-- {
		if s[i:i+len(sub)] == sub {
			return i
		}
	}
	return -1
}

func c41Runes(s string) []string {
	var out []string
	for len(s) > 0 {
		_, w := utf8.DecodeRuneInString(s)
		out = append(out, s[:w])
		s = s[w:]
	}
	return out
}

// c41Split: max < 0 no limit; max == 0 no result; otherwise at most max pieces,
// the last one being the unsplit rest. An empty separator splits into code points.
func c41Split(s, sep string, max int) []string {
	if max == 0 {
		return nil
	}
	var out []string
	if sep == "" {
		rs := c41Runes(s)
		for i, r := range rs {
			if max > 0 && len(out) == max-1 {
				return append(out, strings.Join(rs[i:], ""))
			}
			out = append(out, r)
		}
		return out
	}
	pos := 0
	for {
		if max > 0 && len(out) == max-1 {
			break
		}
		i := c41IndexFrom(s, sep, pos)
		if i < 0 {
			break
		}
		out = append(out, s[pos:i])
		pos = i + len(sep)
	}
	return append(out, s[pos:])
}

func c41Replace(s, old, repl string, max int) string {
	var sb strings.Builder
	pos, n := 0, 0
	for max < 0 || n < max {
		i := c41IndexFrom(s, old, pos)
		if i < 0 {
			break
		}
		sb.WriteString(s[pos:i])
		sb.WriteString(repl)
		pos = i + len(old)
		n++
	}
	sb.WriteString(s[pos:])
	return sb.String()
}

func c41Count(s, sub string) int {
	n, pos := 0, 0
	for {
		i := c41IndexFrom(s, sub, pos)
		if i < 0 {
			return n
		}
		n++
		pos = i + len(sub)
	}
}

func c41Compare(a, b string) int {
	for i := 0; i < len(a) && i < len(b); i++ {
		if a[i] != b[i] {
			if a[i] < b[i] {
				return -1
			}
			return 1
		}
	}
	switch {
	case len(a) < len(b):
		return -1
	case len(a) > len(b):
		return 1
	}
	return 0
}

// ---- C41/bytes ------------------------------------------------------------------

type c41Bytes struct {
	S    vs.B `json:"s"`
	Sep  vs.B `json:"sep"`
	Repl vs.B `json:"repl"`
	T    vs.B `json:"t"`
	Max  int  `json:"max"`
	N    int  `json:"n"`
}

func c41GenBytes(t *rapid.T) c41Bytes {
	var c c41Bytes
	sep := string(gen.Str(t, "sep", 2))
	if rapid.IntRange(0, 3).Draw(t, "asciisep") == 0 {
		sep = rapid.SampledFrom([]string{",", " ", "ab", "aa", "a", "::", "\n", "é", "\xff", "世"}).Draw(t, "sep2")
	}
	// the subject: pieces glued with the separator (or with a near miss of it)
	np := rapid.IntRange(0, 5).Draw(t, "np")
	var sb strings.Builder
	for i := 0; i < np; i++ {
		if i > 0 {
			switch rapid.IntRange(0, 5).Draw(t, "glue") {
			case 0:
				if len(sep) > 1 {
					sb.WriteString(sep[:len(sep)-1])
				}
			case 1:
				sb.WriteString(sep + sep)
			default:
				sb.WriteString(sep)
			}
		}
		sb.WriteString(string(gen.Str(t, "piece", 3)))
	}
	if rapid.IntRange(0, 3).Draw(t, "trail") == 0 {
		sb.WriteString(sep)
	}
	c.S = vs.B(sb.String())
	c.Sep = vs.B(sep)
	c.Repl = gen.Str(t, "repl", 2)
	switch rapid.IntRange(0, 4).Draw(t, "tk") {
	case 0:
		c.T = c.S
	case 1:
		s := string(c.S)
		c.T = vs.B(s[:rapid.IntRange(0, len(s)).Draw(t, "cut")])
	case 2:
		s := string(c.S)
		c.T = vs.B(s[rapid.IntRange(0, len(s)).Draw(t, "cut"):])
	case 3:
		s := string(c.S)
		i := rapid.IntRange(0, len(s)).Draw(t, "i")
		j := rapid.IntRange(i, len(s)).Draw(t, "j")
		c.T = vs.B(s[i:j])
	default:
		c.T = gen.Str(t, "t", 3)
	}
	c.Max = rapid.SampledFrom([]int{-1, -1, -1, 2, 1, 3, 0, 5, -7}).Draw(t, "max")
	c.N = rapid.IntRange(0, 4).Draw(t, "n")
	return c
}

func c41CheckBytes(c c41Bytes) error {
	s, sep, repl, t := string(c.S), string(c.Sep), string(c.Repl), string(c.T)
	in := fmt.Sprintf("s=%q sep=%q repl=%q t=%q max=%d", s, sep, repl, t, c.Max)
	g, err := c41RunGroups(map[string]any{"s": s, "sep": sep, "repl": repl, "t": t, "max": c.Max, "n": c.N}, `
		str:split &max=$max $sep $s
		put $nil
		str:split &max=$max $sep $s | str:join $sep
		put $nil
		str:join $sep [(str:split &max=$max $sep $s)]
		put $nil
		str:split $sep $s
		put $nil
		str:split $sep $s | str:join $sep
		str:replace &max=$max $t $repl $s
		str:replace $t $repl $s
		str:contains $s $t
		str:index $s $t
		str:last-index $s $t
		str:count $s $t
		str:has-prefix $s $t
		str:has-suffix $s $t
		str:trim-prefix $s $t
		str:trim-suffix $s $t
		str:compare $s $t
		str:compare $t $s
		str:repeat $t $n
	`)
	if err != nil {
		return fmt.Errorf("str: builtins threw %v\n%s", err, in)
	}
	if len(g) != 5 || len(g[1]) != 1 || len(g[2]) != 1 || len(g[4]) != 14 {
		return fmt.Errorf("unexpected number of outputs: %v\n%s", g, in)
	}
	// same layout as before: 0 pieces, 1 join(list), 2 join(pipe), 3 all pieces, 4.. scalars
	out := []any{vals.MakeList(g[0]...), g[2][0], g[1][0], vals.MakeList(g[3]...)}
	out = append(out, g[4]...)
	pieces, err := c41Strs(out[0])
	if err != nil {
		return fmt.Errorf("str:split output: %v\n%s", err, in)
	}
	exactSplit := sep != "" || utf8.ValidString(s)
	if want := c41Split(s, sep, c.Max); exactSplit && !c41EqStrs(pieces, want) {
		return fmt.Errorf("str:split &max=%d = %q, reference %q\n%s", c.Max, pieces, want, in)
	}
	if c.Max != 0 {
		if err := c41Want("str:join sep (str:split &max sep s)", out[1], s, in); err != nil {
			return err
		}
		if err := c41Want("str:split ... | str:join sep", out[2], s, in); err != nil {
			return err
		}
	} else if len(pieces) != 0 {
		return fmt.Errorf("str:split &max=0 produced %q\n%s", pieces, in)
	}
	all, err := c41Strs(out[3])
	if err != nil {
		return fmt.Errorf("str:split output: %v\n%s", err, in)
	}
	if want := c41Split(s, sep, -1); exactSplit && !c41EqStrs(all, want) {
		return fmt.Errorf("str:split = %q, reference %q\n%s", all, want, in)
	}
	if err := c41Want("str:join sep (str:split sep s)", out[4], s, in); err != nil {
		return err
	}
	if t != "" { // replacing the empty string: not documented
		if err := c41Want(fmt.Sprintf("str:replace &max=%d t repl s", c.Max), out[5], c41Replace(s, t, repl, c.Max), in); err != nil {
			return err
		}
		if err := c41Want("str:replace t repl s", out[6], c41Replace(s, t, repl, -1), in); err != nil {
			return err
		}
	}
	idx := c41IndexFrom(s, t, 0)
	if err := c41Want("str:contains s t", out[7], idx >= 0, in); err != nil {
		return err
	}
	if err := c41Want("str:index s t", out[8], idx, in); err != nil {
		return err
	}
	if err := c41Want("str:last-index s t", out[9], c41LastIndex(s, t), in); err != nil {
		return err
	}
	if t != "" {
		if err := c41Want("str:count s t", out[10], c41Count(s, t), in); err != nil {
			return err
		}
	} else if utf8.ValidString(s) {
		if err := c41Want("str:count s ''", out[10], 1+len(c41Runes(s)), in); err != nil {
			return err
		}
	}
	if err := c41Want("str:has-prefix s t", out[11], c41HasPrefix(s, t), in); err != nil {
		return err
	}
	if err := c41Want("str:has-suffix s t", out[12], c41HasSuffix(s, t), in); err != nil {
		return err
	}
	wantTP, wantTS := s, s
	if c41HasPrefix(s, t) {
		wantTP = s[len(t):]
	}
	if c41HasSuffix(s, t) {
		wantTS = s[:len(s)-len(t)]
	}
	if err := c41Want("str:trim-prefix s t", out[13], wantTP, in); err != nil {
		return err
	}
	if err := c41Want("str:trim-suffix s t", out[14], wantTS, in); err != nil {
		return err
	}
	if err := c41Want("str:compare s t", out[15], c41Compare(s, t), in); err != nil {
		return err
	}
	if err := c41Want("str:compare t s", out[16], c41Compare(t, s), in); err != nil {
		return err
	}
	rep := ""
	for i := 0; i < c.N; i++ {
		rep += t
	}
	return c41Want("str:repeat t n", out[17], rep, in)
}

func c41ClassBytes(c c41Bytes) (string, bool) {
	s, sep := string(c.S), string(c.Sep)
	n := 0
	if sep != "" {
		n = c41Count(s, sep)
	}
	valid := "valid"
	if !utf8.ValidString(s) || !utf8.ValidString(sep) {
		valid = "invalid-utf8"
	}
	switch {
	case sep == "":
		return "empty-sep/" + valid, s != ""
	case n == 0:
		return "sep-absent/" + valid, false
	case c.Max >= 0 && c.Max <= n:
		return "max-cuts/" + valid, true
	case n >= 2:
		return "sep-2+/" + valid, true
	}
	return "sep-1/" + valid, true
}

// ---- C41/codepoints -------------------------------------------------------------

type c41CP struct {
	S   string `json:"s"`   // valid UTF-8
	Cps []int  `json:"cps"` // code points, possibly invalid
	B   vs.B   `json:"b"`   // arbitrary bytes
}

func c41Encode(cps []int) (string, bool) {
	var b []byte
	for _, c := range cps {
		switch {
		case c < 0 || c > 0x10FFFF || (c >= 0xD800 && c <= 0xDFFF):
			return "", false
		case c < 0x80:
			b = append(b, byte(c))
		case c < 0x800:
			b = append(b, 0xC0|byte(c>>6), 0x80|byte(c&0x3F))
		case c < 0x10000:
			b = append(b, 0xE0|byte(c>>12), 0x80|byte(c>>6&0x3F), 0x80|byte(c&0x3F))
		default:
			b = append(b, 0xF0|byte(c>>18), 0x80|byte(c>>12&0x3F), 0x80|byte(c>>6&0x3F), 0x80|byte(c&0x3F))
		}
	}
	return string(b), true
}

func c41GenCP(t *rapid.T) c41CP {
	var c c41CP
	c.S = gen.ValidStr(t, "s", 6)
	n := rapid.IntRange(0, 6).Draw(t, "ncp")
	allValid := rapid.IntRange(0, 2).Draw(t, "allvalid") > 0
	for i := 0; i < n; i++ {
		k := rapid.IntRange(0, 9).Draw(t, "cpk")
		switch {
		case k < 4:
			c.Cps = append(c.Cps, rapid.SampledFrom([]int{0x7F, 0x80, 0x7FF, 0x800, 0xFFFF, 0x10000, 0x10FFFF, 0xD7FF, 0xE000, 0xFFFD, 0, 0x61, 0x4f60, 0x1F600}).Draw(t, "cp"))
		case k < 8 || allValid:
			v := rapid.IntRange(0, 0x10FFFF).Draw(t, "cp")
			if v >= 0xD800 && v <= 0xDFFF {
				v -= 0x800
			}
			c.Cps = append(c.Cps, v)
		default:
			c.Cps = append(c.Cps, rapid.SampledFrom([]int{0xD800, 0xDFFF, 0xDBFF, 0x110000, -1, 0x7FFFFFFF, -0x80000000}).Draw(t, "badcp"))
		}
	}
	c.B = gen.Str(t, "b", 5)
	return c
}

func c41ParseNums(v any) ([]int, error) {
	l, err := c41List(v)
	if err != nil {
		return nil, err
	}
	out := make([]int, len(l))
	for i, x := range l {
		switch x := x.(type) {
		case string:
			n, err := strconv.ParseInt(x, 0, 64)
			if err != nil {
				return nil, fmt.Errorf("element %d %q is not a number", i, x)
			}
			out[i] = int(n)
		case int:
			out[i] = x
		default:
			return nil, fmt.Errorf("element %d is %s", i, vals.ReprPlain(x))
		}
	}
	return out, nil
}

func c41CheckCP(c c41CP) error {
	in := fmt.Sprintf("s=%q cps=%v b=%q", c.S, c.Cps, string(c.B))
	// 1. to-codepoints then from-codepoints
	out, err := c41Run(map[string]any{"s": c.S}, `
		put [(str:to-codepoints $s)]
		put (str:from-codepoints (str:to-codepoints $s))
		put [(str:to-utf8-bytes $s)]
		put (str:from-utf8-bytes (str:to-utf8-bytes $s))`)
	if err != nil || len(out) != 4 {
		return fmt.Errorf("codepoint/byte round trip of valid UTF-8 threw %v (outputs %s)\n%s", err, elv.Reprs(out), in)
	}
	cps, err := c41ParseNums(out[0])
	if err != nil {
		return fmt.Errorf("str:to-codepoints: %v\n%s", err, in)
	}
	var wantCps []int
	for _, r := range c.S {
		wantCps = append(wantCps, int(r))
	}
	if fmt.Sprint(cps) != fmt.Sprint(wantCps) {
		return fmt.Errorf("str:to-codepoints = %v, reference %v\n%s", cps, wantCps, in)
	}
	if enc, _ := c41Encode(cps); enc != c.S {
		return fmt.Errorf("str:to-codepoints = %v encodes to %q, not the input\n%s", cps, enc, in)
	}
	if err := c41Want("str:from-codepoints (str:to-codepoints s)", out[1], c.S, in); err != nil {
		return err
	}
	bs, err := c41ParseNums(out[2])
	if err != nil {
		return fmt.Errorf("str:to-utf8-bytes: %v\n%s", err, in)
	}
	if len(bs) != len(c.S) {
		return fmt.Errorf("str:to-utf8-bytes gave %d values for %d bytes\n%s", len(bs), len(c.S), in)
	}
	for i := range bs {
		if bs[i] != int(c.S[i]) {
			return fmt.Errorf("str:to-utf8-bytes [%d] = %#x, reference %#x\n%s", i, bs[i], c.S[i], in)
		}
	}
	if err := c41Want("str:from-utf8-bytes (str:to-utf8-bytes s)", out[3], c.S, in); err != nil {
		return err
	}

	// 2. from-codepoints of a number list
	cpl := vals.EmptyList
	for _, n := range c.Cps {
		cpl = cpl.Conj(n)
	}
	out, err = c41Run(map[string]any{"cps": cpl}, `
		var r = (str:from-codepoints $@cps)
		put $r
		put [(str:to-codepoints $r)]`)
	want, ok := c41Encode(c.Cps)
	if !ok {
		if err == nil {
			return fmt.Errorf("str:from-codepoints accepted an invalid code point, gave %s\n%s", elv.Reprs(out), in)
		}
		if !elv.IsException(err) {
			return fmt.Errorf("str:from-codepoints with an invalid code point: %v is not an exception\n%s", err, in)
		}
	} else {
		if err != nil || len(out) != 2 {
			return fmt.Errorf("str:from-codepoints threw %v\n%s", err, in)
		}
		if err := c41Want("str:from-codepoints cps", out[0], want, in); err != nil {
			return err
		}
		back, err := c41ParseNums(out[1])
		if err != nil || fmt.Sprint(back) != fmt.Sprint(append([]int{}, c.Cps...)) {
			return fmt.Errorf("str:to-codepoints (str:from-codepoints cps) = %v %v, want %v\n%s", back, err, c.Cps, in)
		}
	}

	// 3. bytes of an arbitrary string and back
	b := string(c.B)
	out, err = c41Run(map[string]any{"b": b}, `put [(str:to-utf8-bytes $b)]`)
	if err != nil || len(out) != 1 {
		return fmt.Errorf("str:to-utf8-bytes threw %v\n%s", err, in)
	}
	bs, err = c41ParseNums(out[0])
	if err != nil || len(bs) != len(b) {
		return fmt.Errorf("str:to-utf8-bytes gave %v (%v) for %d bytes\n%s", bs, err, len(b), in)
	}
	bl := vals.EmptyList
	for i := range bs {
		if bs[i] != int(b[i]) {
			return fmt.Errorf("str:to-utf8-bytes [%d] = %#x, reference %#x\n%s", i, bs[i], b[i], in)
		}
		bl = bl.Conj(bs[i])
	}
	out, err = c41Run(map[string]any{"bl": bl}, `put (str:from-utf8-bytes $@bl)`)
	if c41ValidUTF8(b) {
		if err != nil || len(out) != 1 {
			return fmt.Errorf("str:from-utf8-bytes of valid UTF-8 threw %v\n%s", err, in)
		}
		return c41Want("str:from-utf8-bytes", out[0], b, in)
	}
	if err == nil {
		return fmt.Errorf("str:from-utf8-bytes accepted invalid UTF-8, gave %s\n%s", elv.Reprs(out), in)
	}
	if !elv.IsException(err) {
		return fmt.Errorf("str:from-utf8-bytes of invalid UTF-8: %v is not an exception\n%s", err, in)
	}
	return nil
}

// c41ValidUTF8 is a hand-written validity test (RFC 3629).
func c41ValidUTF8(s string) bool {
	for i := 0; i < len(s); {
		b := s[i]
		var n int
		var min, cp int
		switch {
		case b < 0x80:
			i++
			continue
		case b&0xE0 == 0xC0:
			n, min, cp = 1, 0x80, int(b&0x1F)
		case b&0xF0 == 0xE0:
			n, min, cp = 2, 0x800, int(b&0x0F)
		case b&0xF8 == 0xF0:
			n, min, cp = 3, 0x10000, int(b&0x07)
		default:
			return false
		}
		if i+n > len(s)-1 {
			return false // truncated sequence
		}
		for k := 1; k <= n; k++ {
			if s[i+k]&0xC0 != 0x80 {
				return false
			}
			cp = cp<<6 | int(s[i+k]&0x3F)
		}
		if cp < min || cp > 0x10FFFF || (cp >= 0xD800 && cp <= 0xDFFF) {
			return false
		}
		i += n + 1
	}
	return true
}

func c41ClassCP(c c41CP) (string, bool) {
	_, ok := c41Encode(c.Cps)
	astral := false
	for _, r := range c.S {
		if r > 0xFFFF {
			astral = true
		}
	}
	for _, n := range c.Cps {
		if n > 0xFFFF {
			astral = true
		}
	}
	switch {
	case !ok:
		return "invalid-codepoint", true
	case !c41ValidUTF8(string(c.B)):
		return "invalid-bytes", true
	case astral:
		return "astral", true
	case c.S == "" && len(c.Cps) == 0:
		return "empty", false
	}
	return "bmp", true
}

// ---- C41/unicode ----------------------------------------------------------------

type c41Uni struct {
	S   string `json:"s"`
	T   string `json:"t"`
	Cut string `json:"cut"`
}

var c41Letters = []string{"a", "b", "z", "A", "Z", "k", "K", "s", "S", "i", "I",
	"é", "É", "ß", "ẞ", "σ", "ς", "Σ", "ǆ", "ǅ", "Ǆ", "ı", "İ", "K", "ſ", "Å", "å", "ж", "Ж", "ა", "Ა", "ᲀ", "в",
	"\U00010400", "\U00010428", "世", "ᾳ", "ᾼ", "µ", "Μ", "μ", "ö", "ÿ", "Ÿ", "ǰ", "ŉ", "ﬁ"}
var c41Spaces = []string{" ", "\t", "\n", "\v", "\f", "\r", "\u0085", "\u00a0", "\u1680", "\u2000", "\u2003", "\u200a", "\u2028", "\u2029", "\u202f", "\u205f", "\u3000"}
var c41NonSpaces = []string{"\u200b", "\ufeff", "\u180e", "\u2060", "\x00", "\x1f", "\x1c", "\u2800"}
var c41Punct = []string{"-", ".", "!", "'", ",", "(", "/", "¡", "1", "_", "٣", "́", "—", "$"}

func c41GenUniStr(t *rapid.T, label string, max int) string {
	n := rapid.IntRange(0, max).Draw(t, label+"#")
	var sb strings.Builder
	for i := 0; i < n; i++ {
		k := rapid.IntRange(0, 9).Draw(t, label+"k")
		switch {
		case k < 5:
			sb.WriteString(rapid.SampledFrom(c41Letters).Draw(t, label))
		case k < 8:
			sb.WriteString(rapid.SampledFrom(c41Spaces).Draw(t, label))
		case k < 9:
			sb.WriteString(rapid.SampledFrom(c41Punct).Draw(t, label))
		default:
			sb.WriteString(rapid.SampledFrom(c41NonSpaces).Draw(t, label))
		}
	}
	return sb.String()
}

func c41GenUni(t *rapid.T) c41Uni {
	var c c41Uni
	c.S = c41GenUniStr(t, "s", 10)
	// t: a case variant of s, sometimes perturbed
	switch rapid.IntRange(0, 4).Draw(t, "tk") {
	case 0:
		c.T = c41GenUniStr(t, "t", 6)
	default:
		var sb strings.Builder
		for _, r := range c.S {
			switch rapid.IntRange(0, 4).Draw(t, "fold") {
			case 0:
				sb.WriteRune(unicode.ToUpper(r))
			case 1:
				sb.WriteRune(unicode.ToLower(r))
			case 2:
				sb.WriteRune(unicode.SimpleFold(r))
			case 3:
				sb.WriteRune(unicode.SimpleFold(unicode.SimpleFold(r)))
			default:
				sb.WriteRune(r)
			}
		}
		c.T = sb.String()
		if rapid.IntRange(0, 5).Draw(t, "perturb") == 0 {
			c.T += rapid.SampledFrom(c41Letters).Draw(t, "extra")
		}
	}
	// cutset: characters of s's ends plus others
	rs := c41Runes(c.S)
	var cut strings.Builder
	nc := rapid.IntRange(0, 4).Draw(t, "ncut")
	for i := 0; i < nc; i++ {
		switch k := rapid.IntRange(0, 5).Draw(t, "ck"); {
		case k == 0 && len(rs) > 0:
			cut.WriteString(rs[0])
		case k == 1 && len(rs) > 0:
			cut.WriteString(rs[len(rs)-1])
		case k == 2 && len(rs) > 0:
			cut.WriteString(rs[rapid.IntRange(0, len(rs)-1).Draw(t, "ci")])
		case k == 3:
			cut.WriteString(rapid.SampledFrom(c41Spaces).Draw(t, "cs"))
		default:
			cut.WriteString(rapid.SampledFrom(c41Letters).Draw(t, "cl"))
		}
	}
	c.Cut = cut.String()
	return c
}

func c41MapRunes(s string, f func(rune) rune) string {
	var out []rune
	for _, r := range s {
		out = append(out, f(r))
	}
	return string(out)
}

func c41IsSpace(r rune) bool { return unicode.Is(unicode.White_Space, r) }

func c41InSet(r rune, set string) bool {
	for _, c := range set {
		if c == r {
			return true
		}
	}
	return false
}

func c41TrimLeft(s string, in func(rune) bool) string {
	for len(s) > 0 {
		r, w := utf8.DecodeRuneInString(s)
		if !in(r) {
			break
		}
		s = s[w:]
	}
	return s
}

func c41TrimRight(s string, in func(rune) bool) string {
	for len(s) > 0 {
		r, w := utf8.DecodeLastRuneInString(s)
		if !in(r) {
			break
		}
		s = s[:len(s)-w]
	}
	return s
}

func c41Fields(s string) []string {
	var out []string
	cur := ""
	for _, r := range s {
		if c41IsSpace(r) {
			if cur != "" {
				out = append(out, cur)
				cur = ""
			}
			continue
		}
		cur += string(r)
	}
	if cur != "" {
		out = append(out, cur)
	}
	return out
}

func c41FoldEq(a, b rune) bool {
	if a == b {
		return true
	}
	for r := unicode.SimpleFold(a); r != a; r = unicode.SimpleFold(r) {
		if r == b {
			return true
		}
	}
	return false
}

func c41EqualFold(s, t string) bool {
	a, b := []rune(s), []rune(t)
	if len(a) != len(b) {
		return false
	}
	for i := range a {
		if !c41FoldEq(a[i], b[i]) {
			return false
		}
	}
	return true
}

// c41Title: letters that begin a word are mapped to title case. A word begins
// at the start of the text and after a separator; the reference only commits
// to what is a separator for white space and ASCII punctuation, and to letters
// not being one. ok=false when s contains anything else (digits, '_', marks,
// non-ASCII punctuation), where "begins a word" is not defined by the doc.
func c41Title(s string) (string, bool) {
	var out []rune
	sep := true
	for _, r := range s {
		switch {
		case unicode.IsLetter(r):
			if sep {
				out = append(out, unicode.ToTitle(r))
			} else {
				out = append(out, r)
			}
			sep = false
		case c41IsSpace(r), r < 0x80 && r >= 0x20 && r != '_' && !(r >= '0' && r <= '9') && r != 0x7f:
			out = append(out, r)
			sep = true
		default:
			return "", false
		}
	}
	return string(out), true
}

func c41CheckUni(c c41Uni) error {
	in := fmt.Sprintf("s=%q t=%q cut=%q", c.S, c.T, c.Cut)
	out, err := c41Run(map[string]any{"s": c.S, "t": c.T, "cut": c.Cut}, `
		put (str:to-upper $s) (str:to-lower $s) (str:to-title $s) (str:title $s)
		put (str:equal-fold $s $t) (str:equal-fold $t $s)
		put (str:trim $s $cut) (str:trim-left $s $cut) (str:trim-right $s $cut) (str:trim-space $s)
		put [(str:fields $s)]
		put (str:contains-any $s $cut) (str:index-any $s $cut)`)
	if err != nil || len(out) != 13 {
		return fmt.Errorf("str: builtins threw %v (outputs %s)\n%s", err, elv.Reprs(out), in)
	}
	if err := c41Want("str:to-upper", out[0], c41MapRunes(c.S, unicode.ToUpper), in); err != nil {
		return err
	}
	if err := c41Want("str:to-lower", out[1], c41MapRunes(c.S, unicode.ToLower), in); err != nil {
		return err
	}
	if err := c41Want("str:to-title", out[2], c41MapRunes(c.S, unicode.ToTitle), in); err != nil {
		return err
	}
	if want, ok := c41Title(c.S); ok {
		if err := c41Want("str:title", out[3], want, in); err != nil {
			return err
		}
	}
	ef := c41EqualFold(c.S, c.T)
	if err := c41Want("str:equal-fold s t", out[4], ef, in); err != nil {
		return err
	}
	if err := c41Want("str:equal-fold t s", out[5], ef, in); err != nil {
		return err
	}
	inCut := func(r rune) bool { return c41InSet(r, c.Cut) }
	if err := c41Want("str:trim", out[6], c41TrimRight(c41TrimLeft(c.S, inCut), inCut), in); err != nil {
		return err
	}
	if err := c41Want("str:trim-left", out[7], c41TrimLeft(c.S, inCut), in); err != nil {
		return err
	}
	if err := c41Want("str:trim-right", out[8], c41TrimRight(c.S, inCut), in); err != nil {
		return err
	}
	if err := c41Want("str:trim-space", out[9], c41TrimRight(c41TrimLeft(c.S, c41IsSpace), c41IsSpace), in); err != nil {
		return err
	}
	fields, err := c41Strs(out[10])
	if err != nil {
		return fmt.Errorf("str:fields: %v\n%s", err, in)
	}
	if want := c41Fields(c.S); !c41EqStrs(fields, want) {
		return fmt.Errorf("str:fields = %q, reference %q\n%s", fields, want, in)
	}
	idx := -1
	for i, r := range c.S {
		if inCut(r) {
			idx = i
			break
		}
	}
	if err := c41Want("str:contains-any", out[11], idx >= 0, in); err != nil {
		return err
	}
	return c41Want("str:index-any", out[12], idx, in)
}

func c41ClassUni(c c41Uni) (string, bool) {
	special := false // characters whose case mapping is not a plain upper/lower pair
	for _, r := range c.S {
		if unicode.ToTitle(r) != unicode.ToUpper(r) || unicode.SimpleFold(unicode.SimpleFold(r)) != r || r > 0xFFFF {
			special = true
		}
	}
	_, titleOK := c41Title(c.S)
	inCut := func(r rune) bool { return c41InSet(r, c.Cut) }
	trimmed := c41TrimRight(c41TrimLeft(c.S, inCut), inCut) != c.S
	spaceTrim := c41TrimRight(c41TrimLeft(c.S, c41IsSpace), c41IsSpace) != c.S
	fold := c.S != c.T && c41EqualFold(c.S, c.T)
	switch {
	case c.S == "":
		return "empty", false
	case special && fold:
		return "special-case+fold-equal", true
	case special:
		return "special-case", true
	case fold:
		return "fold-equal", true
	case trimmed:
		return "cutset-trims", true
	case spaceTrim:
		return "space-trims", true
	case !titleOK:
		return "title-undefined", true
	}
	return "plain", true
}

func init() {
	vs.Register(vs.Prop[c41Bytes]{
		Name:  "C41/bytes",
		Rule:  "subject = 0-5 hostile pieces (arbitrary bytes incl. invalid UTF-8) glued with the separator, a near miss of it or a doubled separator; separator hostile or common, sometimes empty; &max from {-1,0,1,2,3,5,-7}; needle t = prefix / suffix / substring of the subject or unrelated; non-trivial = the separator occurs (or is empty with a non-empty subject)",
		Gen:   c41GenBytes,
		Check: c41CheckBytes,
		Class: c41ClassBytes,
		Quick: 4000, Thorough: 40000,
	})
	vs.Register(vs.Prop[c41CP]{
		Name:  "C41/codepoints",
		Rule:  "valid UTF-8 strings from the hostile alphabet; lists of code points at the encoding-length boundaries, random scalar values and invalid ones (surrogates, > U+10FFFF, negative); arbitrary byte strings; non-trivial = anything non-empty",
		Gen:   c41GenCP,
		Check: c41CheckCP,
		Class: c41ClassCP,
		Quick: 3000, Thorough: 30000,
	})
	vs.Register(vs.Prop[c41Uni]{
		Name:  "C41/unicode",
		Rule:  "strings over cased letters with irregular mappings (ß ẞ σ ς ǅ ı İ K ſ Å ᾳ µ Deseret, Georgian), every White_Space code point and look-alikes that are not (U+200B, U+FEFF, U+180E, U+001C), punctuation, digits, marks; t = per-character case variant of s (upper/lower/SimpleFold), sometimes longer; cutset from the ends of s; non-trivial = non-empty subject",
		Gen:   c41GenUni,
		Check: c41CheckUni,
		Class: c41ClassUni,
		Quick: 4000, Thorough: 40000,
	})
}
