package props

// C42 Redirections route bytes and values exactly as specified.
//
// A case is one form `{ body } redir...` (alone, as the first stage of a
// pipeline, or as the last stage) with 1..4 redirections and a body that
// writes bytes / values to, and reads from, chosen ports. The oracle is a
// model of the port table written from website/ref/language.md ("IO ports",
// "Redirection", "Pipeline"): ports are pointers to (open file description,
// value-channel behaviour) pairs, files are POSIX byte arrays with one offset
// per open. Everything observable is compared: outcome of each body action,
// captured stdout/stderr bytes and values, what the downstream stage received,
// final file contents, that a failing redirection stops the form before the
// body, and that no descriptor into the case directory is left open.

import (
	"fmt"
	"io"
	"os"
	"path/filepath"
	"sort"
	"strconv"
	"strings"
	"sync"
	"syscall"
	"time"

	"pgregory.net/rapid"
	"src.elv.sh/pkg/eval"
	"src.elv.sh/pkg/eval/vals"
	"src.elv.sh/pkg/eval/vars"
	"src.elv.sh/pkg/parse"
	"verif/elv"
	"verif/vs"
)

const (
	c42KeyDangling = "C42:dup-closed-by-reredirect"
	c42KeyNegFd    = "C42:negative-fd"
	// `echo a | nop < /dev/null`: nil pointer dereference in pipelineOp.exec
	c42KeyStdinLater = "C17:stdin-redirect-in-later-stage"
)

// ---- case ---------------------------------------------------------------------

type c42Redir struct {
	Dst  string `json:"dst"`  // text before the operator ("" = default port)
	Op   string `json:"op"`   // < > >> <>
	Kind string `json:"kind"` // fd | file | fobj | map | bad
	Src  string `json:"src"`  // fd text | file key | object key | literal
}

type c42Act struct {
	K  string `json:"k"` // wb (Go writes bytes to port) | print (print >&fd) | put (put >&fd) | rb (read all bytes) | rv (read all values)
	Fd int    `json:"fd"`
}

type c42File struct {
	Exists  bool   `json:"exists"`
	Content string `json:"content"`
}

type c42Case struct {
	Pos    string     `json:"pos"` // alone | first | last
	Files  [3]c42File `json:"files"`
	Redirs []c42Redir `json:"redirs"`
	Acts   []c42Act   `json:"acts"`
}

// ---- model --------------------------------------------------------------------

// c42Desc is an open file description or a pseudo sink/source.
type c42Desc struct {
	kind string // file | cap1 | cap2 | null | coll | feed | pinR | pinW | poutR | poutW
	file string // key of the file for kind "file"
	off  int
	rd   bool
	wr   bool
	app  bool
}

// c42Port is one IO port: a file part and a value-channel behaviour.
type c42Port struct {
	desc  *c42Desc // nil: closed port
	ch    string   // sink (values delivered to desc's sink) | never (input style: produces nothing) | raises | feed
	owned bool     // opened by the form / the pipeline (only used to recognise the open finding's shape)
}

type c42ActRes struct {
	Status string   // "ok" | "exc" | "" (not run) | "skip"
	Data   string   // bytes read
	Vals   []string // values read
}

type c42Model struct {
	files      map[string]*[]byte // nil entry: does not exist
	table      []*c42Port
	sinkB      map[string]*strings.Builder // cap1 cap2 coll pout
	sinkV      map[string]*[]string
	feedB      string
	feedV      []string
	pinData    string
	objs       map[string]*c42Desc
	failed     int // index of the failing redirection, -1 if none
	dangling   bool
	pos        string
	stdinLater bool
	acts       []c42ActRes
	touched    bool // some action went through a redirected port
}

const c42FeedBytes = "FEEDBYTES\n"
const c42FeedValue = "feedvalue"
const c42PinData = "PIPEDATA"
const c42GrData = "grdata-0123"

func c42NewModel(c c42Case) *c42Model {
	m := &c42Model{files: map[string]*[]byte{}, sinkB: map[string]*strings.Builder{}, sinkV: map[string]*[]string{}, failed: -1, pos: c.Pos}
	for i, f := range c.Files {
		if f.Exists {
			b := []byte(f.Content)
			m.files["f"+strconv.Itoa(i)] = &b
		}
	}
	g0 := []byte{}
	g1 := []byte(c42GrData)
	m.files["g0"], m.files["g1"] = &g0, &g1
	for _, k := range []string{"cap1", "cap2", "coll", "pout"} {
		m.sinkB[k] = &strings.Builder{}
		m.sinkV[k] = &[]string{}
	}
	m.pinData = c42PinData
	// harness-held file objects: one description each, shared by every use
	m.objs = map[string]*c42Desc{
		"gw": {kind: "file", file: "g0", wr: true},
		"gr": {kind: "file", file: "g1", rd: true},
	}
	m.table = []*c42Port{
		{desc: &c42Desc{kind: "null"}, ch: "never"},
		{desc: &c42Desc{kind: "cap1"}, ch: "sink"},
		{desc: &c42Desc{kind: "cap2"}, ch: "sink"},
	}
	switch c.Pos {
	case "first":
		m.table[1] = &c42Port{desc: &c42Desc{kind: "coll"}, ch: "sink", owned: true}
	case "last":
		m.table[0] = &c42Port{desc: &c42Desc{kind: "feed"}, ch: "feed", owned: true}
		m.feedB, m.feedV = c42FeedBytes, []string{c42FeedValue}
	}
	return m
}

// c42Fd parses a port number as the reference describes it: a decimal number
// of an IO port or stdin/stdout/stderr.
func c42Fd(s string) (int, bool) {
	switch s {
	case "stdin":
		return 0, true
	case "stdout":
		return 1, true
	case "stderr":
		return 2, true
	}
	if s == "" || len(s) > 4 {
		return 0, false
	}
	for _, r := range s {
		if r < '0' || r > '9' {
			return 0, false
		}
	}
	n, _ := strconv.Atoi(s)
	return n, true
}

func c42DefaultDst(op string) int {
	if op == "<" {
		return 0
	}
	return 1
}

// applyRedirs runs the redirections left to right; sets m.failed.
func (m *c42Model) applyRedirs(c c42Case) {
	for i, r := range c.Redirs {
		if !m.applyRedir(r) {
			m.failed = i
			return
		}
	}
}

func (m *c42Model) aliased(p *c42Port, except int) bool {
	for i, q := range m.table {
		if i != except && q == p {
			return true
		}
	}
	return false
}

func (m *c42Model) applyRedir(r c42Redir) (ok bool) {
	dst := c42DefaultDst(r.Op)
	defer func() {
		if ok && dst == 0 && m.pos == "last" {
			// port 0 of a stage that reads from a pipe has been replaced
			m.stdinLater = true
		}
	}()
	if r.Dst != "" {
		var ok bool
		if dst, ok = c42Fd(r.Dst); !ok {
			return false
		}
	}
	for len(m.table) <= dst {
		m.table = append(m.table, nil)
	}
	old := m.table[dst]
	selfDup := false
	if r.Kind == "fd" {
		if s, ok := c42Fd(r.Src); ok && s == dst {
			selfDup = true
		}
	}
	if old != nil && old.owned && (m.aliased(old, dst) || selfDup) {
		// The port the form owns is still referred to (by another fd, or by
		// this very redirection) while its fd is redirected again.
		m.dangling = true
	}
	chFor := func() string {
		if r.Op == "<" {
			return "never"
		}
		return "raises"
	}
	switch r.Kind {
	case "fd":
		if r.Src == "-" {
			m.table[dst] = &c42Port{desc: nil, ch: "raises"}
			return true
		}
		src, ok := c42Fd(r.Src)
		if !ok || src >= len(m.table) || m.table[src] == nil {
			return false
		}
		m.table[dst] = m.table[src]
		return true
	case "file":
		d, ok := m.open(r.Src, r.Op)
		if !ok {
			return false
		}
		m.table[dst] = &c42Port{desc: d, ch: chFor(), owned: true}
		return true
	case "fobj":
		m.table[dst] = &c42Port{desc: m.objs[r.Src], ch: chFor()}
		return true
	case "map":
		switch {
		case r.Op == "<" && r.Src == "pin":
			m.table[dst] = &c42Port{desc: &c42Desc{kind: "pinR"}, ch: "never"}
		case r.Op == "<" && r.Src == "pout":
			m.table[dst] = &c42Port{desc: &c42Desc{kind: "poutR"}, ch: "never"}
		case r.Op == ">" && r.Src == "pin":
			m.table[dst] = &c42Port{desc: &c42Desc{kind: "pinW"}, ch: "raises"}
		case r.Op == ">" && r.Src == "pout":
			m.table[dst] = &c42Port{desc: &c42Desc{kind: "poutW"}, ch: "raises"}
		default:
			return false // other operators can't be used with maps
		}
		return true
	}
	return false // "bad": not a string, file or map / not exactly one value
}

func (m *c42Model) open(key, op string) (*c42Desc, bool) {
	switch key {
	case "nodir": // a path below a directory that does not exist
		return nil, false
	case "empty": // the empty file name
		return nil, false
	case "dir": // an existing directory
		if op == "<" {
			return &c42Desc{kind: "dir", rd: true}, true
		}
		return nil, false
	}
	f := m.files[key]
	switch op {
	case "<":
		if f == nil {
			return nil, false
		}
		return &c42Desc{kind: "file", file: key, rd: true}, true
	case ">":
		b := []byte{}
		m.files[key] = &b
		return &c42Desc{kind: "file", file: key, wr: true}, true
	case ">>":
		if f == nil {
			b := []byte{}
			m.files[key] = &b
		}
		return &c42Desc{kind: "file", file: key, wr: true, app: true}, true
	case "<>":
		if f == nil {
			b := []byte{}
			m.files[key] = &b
		}
		return &c42Desc{kind: "file", file: key, rd: true, wr: true}, true
	}
	return nil, false
}

func (m *c42Model) port(fd int) *c42Port {
	if fd < 0 || fd >= len(m.table) {
		return nil
	}
	return m.table[fd]
}

func (m *c42Model) writeBytes(p *c42Port, data string) bool {
	if p == nil || p.desc == nil {
		return false
	}
	d := p.desc
	switch d.kind {
	case "cap1", "cap2", "coll":
		m.sinkB[d.kind].WriteString(data)
		return true
	case "poutW":
		m.sinkB["pout"].WriteString(data)
		return true
	case "file":
		if !d.wr {
			return false
		}
		f := m.files[d.file]
		if d.app {
			*f = append(*f, data...)
			d.off = len(*f)
			return true
		}
		for len(*f) < d.off+len(data) {
			*f = append(*f, 0)
		}
		copy((*f)[d.off:], data)
		d.off += len(data)
		return true
	}
	return false // null, feed, pinR, pinW (closed by the harness), poutR, dir
}

// readBytes returns (data, ok, skip): skip when reading would block forever.
func (m *c42Model) readBytes(p *c42Port) (string, bool, bool) {
	if p == nil || p.desc == nil {
		return "", false, false
	}
	d := p.desc
	switch d.kind {
	case "null":
		return "", true, false
	case "feed":
		s := m.feedB
		m.feedB = ""
		return s, true, false
	case "pinR":
		s := m.pinData
		m.pinData = ""
		return s, true, false
	case "poutR":
		return "", false, true // the write end stays open: would block
	case "file":
		if !d.rd {
			return "", false, false
		}
		f := *m.files[d.file]
		if d.off >= len(f) {
			return "", true, false
		}
		s := string(f[d.off:])
		d.off = len(f)
		return s, true, false
	}
	return "", false, false // write ends of pipes, directories
}

func (m *c42Model) usesRedirected(c c42Case, fd int) bool {
	for _, r := range c.Redirs {
		dst := c42DefaultDst(r.Op)
		if r.Dst != "" {
			dst, _ = c42Fd(r.Dst)
		}
		if dst == fd {
			return true
		}
	}
	return false
}

// runActs computes the expected outcome of the body.
func (m *c42Model) runActs(c c42Case) {
	m.acts = make([]c42ActRes, len(c.Acts))
	if m.failed >= 0 {
		return
	}
	for i, a := range c.Acts {
		p := m.port(a.Fd)
		res := &m.acts[i]
		if m.usesRedirected(c, a.Fd) {
			m.touched = true
		}
		switch a.K {
		case "wb", "print":
			if m.writeBytes(p, c42Token(i)) {
				res.Status = "ok"
			} else {
				res.Status = "exc"
			}
		case "put":
			switch {
			case p == nil:
				res.Status = "exc"
			case p.ch == "sink":
				k := p.desc.kind
				*m.sinkV[k] = append(*m.sinkV[k], c42Token(i))
				res.Status = "ok"
			case p.ch == "raises":
				res.Status = "exc"
			default:
				// Value output to an input-style port: the reference does
				// not say what happens. Left out.
				res.Status = "skip"
			}
		case "rb":
			data, ok, skip := m.readBytes(p)
			switch {
			case skip:
				res.Status = "skip"
			case ok:
				res.Status, res.Data = "ok", data
			default:
				res.Status = "exc"
			}
		case "rv":
			switch {
			case p == nil:
				res.Status = "exc"
			case p.ch == "never":
				res.Status = "ok"
			case p.ch == "feed":
				res.Status, res.Vals = "ok", m.feedV
				m.feedV = nil
			default:
				res.Status = "skip" // reading an output port's channel blocks
			}
		}
	}
}

func c42Token(i int) string { return fmt.Sprintf("<T%d>", i) }

func c42Predict(c c42Case) *c42Model {
	m := c42NewModel(c)
	m.applyRedirs(c)
	m.runActs(c)
	return m
}

// ---- generator ----------------------------------------------------------------

var (
	c42Fds      = []string{"0", "1", "2", "3", "4", "5", "stdin", "stdout", "stderr", "7", "64", "1023"}
	c42BadDst   = []string{"-1", "-2", "-9223372036854775808", "a", "1.5", "-"}
	c42BadSrc   = []string{"-1", "-2", "a", "1.5", "9", "-9223372036854775808"}
	c42FileKeys = []string{"f0", "f1", "f2", "f0", "f1", "f2", "f0", "f1", "f2", "f0", "f1", "f2", "nodir", "dir", "empty"}
)

func c42Gen(t *rapid.T) c42Case {
	var c c42Case
	c.Pos = rapid.SampledFrom([]string{"alone", "alone", "first", "last"}).Draw(t, "pos")
	for i := range c.Files {
		c.Files[i].Exists = rapid.IntRange(0, 9).Draw(t, "exists") < 8
		if c.Files[i].Exists {
			c.Files[i].Content = rapid.SampledFrom([]string{"", "0123456789", "abc\n", "xyzxyzxyzxyzxyzxyzxyz"}).Draw(t, "content")
		}
	}
	n := rapid.IntRange(1, 4).Draw(t, "nredirs")
	var used []int
	for i := 0; i < n; i++ {
		var r c42Redir
		r.Op = rapid.SampledFrom([]string{">", ">", ">", ">>", "<", "<", "<>"}).Draw(t, "op")
		switch d := rapid.IntRange(0, 99).Draw(t, "dstkind"); {
		case d < 45:
			r.Dst = ""
		case d < 97:
			r.Dst = rapid.SampledFrom(c42Fds).Draw(t, "dst")
		default:
			r.Dst = rapid.SampledFrom(c42BadDst).Draw(t, "baddst")
		}
		switch k := rapid.IntRange(0, 99).Draw(t, "kind"); {
		case k < 38:
			r.Kind = "file"
			r.Src = rapid.SampledFrom(c42FileKeys).Draw(t, "file")
		case k < 80:
			r.Kind = "fd"
			if r.Op == ">>" || r.Op == "<>" {
				r.Op = ">"
			}
			switch s := rapid.IntRange(0, 99).Draw(t, "srckind"); {
			case s < 20:
				r.Src = "-"
			case s < 50 && len(used) > 0:
				r.Src = strconv.Itoa(rapid.SampledFrom(used).Draw(t, "srcused"))
			case s < 88:
				r.Src = rapid.SampledFrom([]string{"0", "1", "2", "1", "2", "stdin", "stdout", "stderr"}).Draw(t, "src")
			case s < 95:
				r.Src = rapid.SampledFrom([]string{"3", "4", "5", "7"}).Draw(t, "srcunset")
			default:
				r.Src = rapid.SampledFrom(c42BadSrc).Draw(t, "badsrc")
			}
		case k < 88:
			r.Kind = "fobj"
			r.Src = rapid.SampledFrom([]string{"gw", "gr"}).Draw(t, "obj")
		case k < 97:
			r.Kind = "map"
			r.Src = rapid.SampledFrom([]string{"pin", "pout"}).Draw(t, "map")
			if rapid.IntRange(0, 9).Draw(t, "mapop") < 8 {
				if r.Src == "pin" {
					r.Op = "<"
				} else {
					r.Op = ">"
				}
			}
		default:
			r.Kind = "bad"
			r.Src = rapid.SampledFrom([]string{"[]", "(num 3)", "{a,b}", "$nil", "[&]", "[&r=x]"}).Draw(t, "bad")
			if r.Src == "[&]" || r.Src == "[&r=x]" {
				r.Op = rapid.SampledFrom([]string{"<", ">"}).Draw(t, "badmapop")
			}
		}
		dst := c42DefaultDst(r.Op)
		if r.Dst != "" {
			if d, ok := c42Fd(r.Dst); ok {
				dst = d
			}
		}
		if dst <= 7 {
			used = append(used, dst)
		}
		c.Redirs = append(c.Redirs, r)
	}
	na := rapid.IntRange(1, 7).Draw(t, "nacts")
	for i := 0; i < na; i++ {
		var a c42Act
		a.K = rapid.SampledFrom([]string{"wb", "wb", "print", "print", "put", "put", "put", "rb", "rb", "rv"}).Draw(t, "act")
		if len(used) > 0 && rapid.IntRange(0, 9).Draw(t, "fdused") < 6 {
			a.Fd = rapid.SampledFrom(used).Draw(t, "fdu")
		} else {
			a.Fd = rapid.IntRange(0, 6).Draw(t, "fd")
		}
		c.Acts = append(c.Acts, a)
	}
	// Open finding: leave out exactly the forms in which a port owned by the
	// form is closed by re-redirecting its fd while still referred to.
	// Two thirds of the cases have only valid redirections, so that the body runs.
	if rapid.IntRange(0, 2).Draw(t, "allowinvalid") > 0 {
		for guard := 0; guard < 8; guard++ {
			m := c42Predict(c)
			if m.failed < 0 {
				break
			}
			r := &c.Redirs[m.failed]
			if _, ok := c42Fd(r.Dst); !ok {
				r.Dst = ""
			}
			if r.Kind == "fd" {
				r.Src = "1"
			} else {
				r.Kind, r.Src = "file", "f"+strconv.Itoa(m.failed%3)
				if r.Op == "<" && !c.Files[m.failed%3].Exists {
					r.Op = "<>"
				}
			}
		}
	}
	// Open finding: a later pipeline stage that replaces its port 0.
	isDangling := func(m *c42Model) bool { return m.dangling }
	isStdinLater := func(m *c42Model) bool { return m.stdinLater }
	for {
		m := c42Predict(c)
		if m.dangling && vs.KnownOpen(c42KeyDangling) {
			vs.Excluded("a form-owned port is re-redirected while a duplicate still refers to it (open finding " + c42KeyDangling + ")")
			c.Redirs = c42DropShape(c, isDangling)
			continue
		}
		if m.stdinLater && vs.KnownOpen(c42KeyStdinLater) {
			vs.Excluded("port 0 of a stage reading from a pipe is redirected (open finding " + c42KeyStdinLater + ")")
			c.Redirs = c42DropShape(c, isStdinLater)
			continue
		}
		break
	}
	if len(c.Redirs) == 0 {
		c.Redirs = []c42Redir{{Dst: "3", Op: ">", Kind: "fd", Src: "1"}}
	}
	return c
}

// c42DropShape removes the first redirection that creates the shape.
func c42DropShape(c c42Case, isShape func(*c42Model) bool) []c42Redir {
	for k := 1; k <= len(c.Redirs); k++ {
		cc := c
		cc.Redirs = c.Redirs[:k]
		if isShape(c42Predict(cc)) {
			out := append([]c42Redir(nil), c.Redirs[:k-1]...)
			return append(out, c.Redirs[k:]...)
		}
	}
	return nil
}

// ---- execution ----------------------------------------------------------------

type c42Rec struct {
	mu    sync.Mutex
	acts  []c42ActRes
	collB []byte
	collV []string
}

var (
	c42Once sync.Once
	c42Ev   *eval.Evaler
	c42Cur  *c42Rec
)

func c42Evaler() *eval.Evaler {
	c42Once.Do(func() {
		c42Ev = elv.New()
		elv.AddGoFns(c42Ev, map[string]any{
			"c42-rec": func(i int, status string) {
				r := c42Cur
				r.mu.Lock()
				defer r.mu.Unlock()
				if i >= 0 && i < len(r.acts) {
					r.acts[i].Status = status
				}
			},
			"c42-wb": func(fm *eval.Frame, fd int, data string) error {
				p := fm.Port(fd)
				if p == nil {
					return fmt.Errorf("no port %d", fd)
				}
				_, err := p.File.WriteString(data)
				return err
			},
			"c42-rb": func(fm *eval.Frame, i int, fd int) error {
				p := fm.Port(fd)
				if p == nil {
					return fmt.Errorf("no port %d", fd)
				}
				if p.File != nil {
					// Refuse to block on something the model did not expect.
					var st syscall.Stat_t
					if err := syscall.Fstat(int(p.File.Fd()), &st); err == nil && st.Mode&syscall.S_IFMT == syscall.S_IFIFO {
						if fl, err := c42Getfl(int(p.File.Fd())); err == nil && fl&syscall.O_ACCMODE == syscall.O_WRONLY {
							return fmt.Errorf("write end of a pipe")
						}
					}
				}
				data, err := io.ReadAll(p.File)
				if err != nil {
					return err
				}
				r := c42Cur
				r.mu.Lock()
				r.acts[i].Data = string(data)
				r.mu.Unlock()
				return nil
			},
			"c42-rv": func(fm *eval.Frame, i int, fd int) error {
				p := fm.Port(fd)
				if p == nil {
					return fmt.Errorf("no port %d", fd)
				}
				var got []string
				for v := range p.Chan {
					got = append(got, vals.ToString(v))
				}
				r := c42Cur
				r.mu.Lock()
				r.acts[i].Vals = got
				r.mu.Unlock()
				return nil
			},
			"c42-feed": func(fm *eval.Frame) error {
				if _, err := fm.ByteOutput().WriteString(c42FeedBytes); err != nil {
					return err
				}
				return fm.ValueOutput().Put(c42FeedValue)
			},
			"c42-collect": func(fm *eval.Frame) error {
				var wg sync.WaitGroup
				wg.Add(2)
				var b []byte
				var v []string
				go func() {
					defer wg.Done()
					b, _ = io.ReadAll(fm.InputFile())
				}()
				go func() {
					defer wg.Done()
					for x := range fm.InputChan() {
						v = append(v, vals.ToString(x))
					}
				}()
				wg.Wait()
				r := c42Cur
				r.mu.Lock()
				r.collB, r.collV = b, v
				r.mu.Unlock()
				return nil
			},
		})
	})
	return c42Ev
}

// c42Run evaluates src with stdout and stderr both captured (bytes and values).
func c42Run(ev *eval.Evaler, src string, global *eval.Ns) (elv.Result, []string, error) {
	out, collect, err := eval.CapturePort()
	if err != nil {
		return elv.Result{}, nil, err
	}
	errPort, collectErr, err := eval.CapturePort()
	if err != nil {
		collect()
		return elv.Result{}, nil, err
	}
	cfg := eval.EvalCfg{Ports: []*eval.Port{nil, out, errPort}, Global: global}
	evalErr := ev.Eval(parse.Source{Name: "[verif]", Code: src}, cfg)
	values, bytes := collect()
	evalues, ebytes := collectErr()
	var ev2 []string
	for _, v := range evalues {
		ev2 = append(ev2, vals.ToString(v))
	}
	return elv.Result{Values: values, Bytes: bytes, ErrOut: ebytes, Err: evalErr}, ev2, nil
}

func c42Getfl(fd int) (int, error) {
	r, _, e := syscall.Syscall(syscall.SYS_FCNTL, uintptr(fd), syscall.F_GETFL, 0)
	if e != 0 {
		return 0, e
	}
	return int(r), nil
}

// c42Source renders the program. Skipped actions are not emitted.
func c42Source(c c42Case, m *c42Model) string {
	var sb strings.Builder
	if c.Pos == "last" {
		sb.WriteString("c42-feed | ")
	}
	sb.WriteString("{\n")
	for i, a := range c.Acts {
		if m.acts[i].Status == "skip" {
			continue
		}
		var body string
		switch a.K {
		case "wb":
			body = fmt.Sprintf("c42-wb %d '%s'", a.Fd, c42Token(i))
		case "print":
			body = fmt.Sprintf("print '%s' >&%d", c42Token(i), a.Fd)
		case "put":
			body = fmt.Sprintf("put '%s' >&%d", c42Token(i), a.Fd)
		case "rb":
			body = fmt.Sprintf("c42-rb %d %d", i, a.Fd)
		case "rv":
			body = fmt.Sprintf("c42-rv %d %d", i, a.Fd)
		}
		fmt.Fprintf(&sb, "  try { %s; c42-rec %d ok } catch e { c42-rec %d exc }\n", body, i, i)
	}
	sb.WriteString("}")
	for _, r := range c.Redirs {
		sb.WriteString(" " + r.Dst + r.Op)
		switch r.Kind {
		case "fd":
			sb.WriteString("&" + r.Src)
		case "file", "fobj", "map":
			sb.WriteString(" $" + r.Src)
		default:
			sb.WriteString(" " + r.Src)
		}
	}
	if c.Pos == "first" {
		sb.WriteString(" | c42-collect")
	}
	return sb.String()
}

func c42Check(c c42Case) error {
	m := c42Predict(c)
	src := c42Source(c, m)
	ev := c42Evaler()

	// below the driver's per-run directory when there is one: it is removed
	// even if this process dies
	dir, err := os.MkdirTemp(os.Getenv("VERIF_WORK"), "verif-c42-")
	if err != nil {
		dir, err = os.MkdirTemp("", "verif-c42-")
	}
	if err != nil {
		vs.Excluded("harness could not create a temporary directory")
		return nil
	}
	defer os.RemoveAll(dir)
	dir, _ = filepath.EvalSymlinks(dir)
	path := func(k string) string { return filepath.Join(dir, k) }
	for i, f := range c.Files {
		if f.Exists {
			if err := os.WriteFile(path("f"+strconv.Itoa(i)), []byte(f.Content), 0o644); err != nil {
				vs.Excluded("harness could not prepare the case files")
				return nil
			}
		}
	}
	os.Mkdir(path("dir"), 0o755)
	os.WriteFile(path("g1"), []byte(c42GrData), 0o644)
	gw, err1 := os.OpenFile(path("g0"), os.O_WRONLY|os.O_CREATE|os.O_TRUNC, 0o644)
	gr, err2 := os.Open(path("g1"))
	pinR, pinW, err3 := os.Pipe()
	poutR, poutW, err4 := os.Pipe()
	if err1 != nil || err2 != nil || err3 != nil || err4 != nil {
		vs.Excluded("harness could not prepare the case files")
		return nil // harness resource problem, not a verdict
	}
	defer func() {
		for _, f := range []*os.File{gw, gr, pinR, pinW, poutR, poutW} {
			f.Close()
		}
	}()
	pinW.WriteString(c42PinData)
	pinW.Close()

	nb := eval.BuildNs()
	for _, k := range []string{"f0", "f1", "f2", "dir"} {
		nb = nb.AddVar(k, vars.NewReadOnly(path(k)))
	}
	nb = nb.AddVar("nodir", vars.NewReadOnly(path("missing-dir/x"))).
		AddVar("empty", vars.NewReadOnly("")).
		AddVar("gw", vars.NewReadOnly(gw)).AddVar("gr", vars.NewReadOnly(gr)).
		AddVar("pin", vars.NewReadOnly(vals.Pipe{R: pinR, W: pinW})).
		AddVar("pout", vars.NewReadOnly(vals.Pipe{R: poutR, W: poutW}))

	rec := &c42Rec{acts: make([]c42ActRes, len(c.Acts))}
	c42Cur = rec
	res, errVals, herr := c42Run(ev, src, nb.Ns())
	if herr != nil {
		vs.Excluded("harness could not create the capture pipes")
		return nil
	}

	fail := func(format string, args ...any) error {
		return fmt.Errorf("%s\nprogram (files are $f0.. in a temp dir; $gw/$gr file objects; $pin/$pout pipes):\n%s\nmodel port table after redirections: %s",
			fmt.Sprintf(format, args...), src, m.describe())
	}

	if res.Err != nil && !elv.IsException(res.Err) {
		return fail("generated program was rejected before running: %v", res.Err)
	}
	if m.failed >= 0 {
		if res.Err == nil {
			return fail("redirection #%d (%s) is invalid and must raise an exception, but the form ran without one", m.failed, c42RedirText(c.Redirs[m.failed]))
		}
		for i, a := range rec.acts {
			if a.Status != "" {
				return fail("redirection #%d failed, yet body action %d ran", m.failed, i)
			}
		}
	} else if res.Err != nil {
		return fail("all redirections are valid, expected no exception, got: %v", res.Err)
	}

	// body actions
	for i := range c.Acts {
		want, got := m.acts[i], rec.acts[i]
		if want.Status == "skip" {
			continue
		}
		a := c.Acts[i]
		if want.Status != got.Status {
			return fail("action %d (%s on port %d): expected %s, observed %s", i, a.K, a.Fd, c42St(want.Status), c42St(got.Status))
		}
		if want.Status == "ok" && a.K == "rb" && want.Data != got.Data {
			return fail("action %d (read bytes from port %d): expected %q, read %q", i, a.Fd, want.Data, got.Data)
		}
		if want.Status == "ok" && a.K == "rv" && strings.Join(want.Vals, "|") != strings.Join(got.Vals, "|") {
			return fail("action %d (read values from port %d): expected %q, read %q", i, a.Fd, want.Vals, got.Vals)
		}
	}

	// sinks
	var gotV1, gotV2 []string
	for _, v := range res.Values {
		gotV1 = append(gotV1, vals.ToString(v))
	}
	gotV2 = errVals
	errBytes := string(res.ErrOut)
	cmpB := func(what, want, got string) error {
		if want != got {
			return fail("%s: expected bytes %q, observed %q", what, want, got)
		}
		return nil
	}
	cmpV := func(what string, want, got []string) error {
		if strings.Join(want, "|") != strings.Join(got, "|") {
			return fail("%s: expected values %q, observed %q", what, want, got)
		}
		return nil
	}
	if err := cmpB("stdout of the evaluation", m.sinkB["cap1"].String(), string(res.Bytes)); err != nil {
		return err
	}
	if err := cmpB("stderr of the evaluation", m.sinkB["cap2"].String(), errBytes); err != nil {
		return err
	}
	if err := cmpV("value output of the evaluation (port 1)", *m.sinkV["cap1"], gotV1); err != nil {
		return err
	}
	if err := cmpV("value output of the evaluation (port 2)", *m.sinkV["cap2"], gotV2); err != nil {
		return err
	}
	if c.Pos == "first" {
		if err := cmpB("bytes received by the next pipeline stage", m.sinkB["coll"].String(), string(rec.collB)); err != nil {
			return err
		}
		if err := cmpV("values received by the next pipeline stage", *m.sinkV["coll"], rec.collV); err != nil {
			return err
		}
	}

	// File objects given to a redirection stay open and usable.
	if _, err := gw.WriteString("Z"); err != nil {
		return fail("file object $gw was closed by the form: %v", err)
	}
	m.writeBytes(&c42Port{desc: m.objs["gw"]}, "Z")
	if _, err := gr.Seek(0, io.SeekCurrent); err != nil {
		return fail("file object $gr was closed by the form: %v", err)
	}
	poutW.Close()
	pb, _ := io.ReadAll(poutR)
	if err := cmpB("bytes written into pipe $pout", m.sinkB["pout"].String(), string(pb)); err != nil {
		return err
	}

	// files
	keys := []string{"f0", "f1", "f2", "g0", "g1"}
	for _, k := range keys {
		got, err := os.ReadFile(path(k))
		want := m.files[k]
		switch {
		case want == nil && err == nil:
			return fail("file $%s must not exist, but has content %q", k, got)
		case want != nil && err != nil:
			return fail("file $%s must exist with content %q: %v", k, *want, err)
		case want != nil && string(*want) != string(got):
			return fail("file $%s: expected content %q, observed %q", k, *want, got)
		}
	}
	if _, err := os.Stat(path("missing-dir")); err == nil {
		return fail("directory missing-dir was created")
	}

	// every file the form opened is closed again
	if open := c42OpenUnder(dir); len(open) != 2 {
		// settle: nothing asynchronous is expected, but be tolerant of a GC finalizer race
		time.Sleep(10 * time.Millisecond)
		if open = c42OpenUnder(dir); len(open) != 2 {
			sort.Strings(open)
			return fail("after the form finished, descriptors into the case directory: %v; expected only the harness' own $gw and $gr", open)
		}
	}
	return nil
}

func c42OpenUnder(dir string) []string {
	var out []string
	ents, err := os.ReadDir("/proc/self/fd")
	if err != nil {
		return nil
	}
	for _, e := range ents {
		l, err := os.Readlink("/proc/self/fd/" + e.Name())
		if err == nil && strings.HasPrefix(l, dir+"/") {
			out = append(out, strings.TrimPrefix(l, dir+"/"))
		}
	}
	return out
}

func c42St(s string) string {
	switch s {
	case "ok":
		return "success"
	case "exc":
		return "an exception"
	case "":
		return "not executed"
	}
	return s
}

func c42RedirText(r c42Redir) string {
	s := r.Dst + r.Op
	if r.Kind == "fd" {
		return s + "&" + r.Src
	}
	if r.Kind == "bad" {
		return s + " " + r.Src
	}
	return s + " $" + r.Src
}

func (m *c42Model) describe() string {
	var parts []string
	for i, p := range m.table {
		switch {
		case p == nil:
			continue
		case p.desc == nil:
			parts = append(parts, fmt.Sprintf("%d:closed", i))
		default:
			d := p.desc
			s := d.kind
			if d.kind == "file" {
				s = "$" + d.file
				if d.rd {
					s += "+r"
				}
				if d.wr {
					s += "+w"
				}
				if d.app {
					s += "+a"
				}
			}
			parts = append(parts, fmt.Sprintf("%d:%s/%s", i, s, p.ch))
		}
	}
	if m.failed >= 0 {
		parts = append(parts, fmt.Sprintf("redirection #%d fails", m.failed))
	}
	return strings.Join(parts, " ")
}

func c42Class(c c42Case) (string, bool) {
	m := c42Predict(c)
	if m.failed >= 0 {
		return c.Pos + "/invalid-redirection", true
	}
	if m.dangling {
		return c.Pos + "/dangling-dup", true
	}
	if m.stdinLater {
		return c.Pos + "/stdin-redirected", true
	}
	feat := map[string]bool{}
	for _, r := range c.Redirs {
		switch {
		case r.Kind == "fd" && r.Src == "-":
			feat["close"] = true
		case r.Kind == "fd":
			feat["dup"] = true
		default:
			feat["file"] = true
		}
	}
	var fs []string
	for k := range feat {
		fs = append(fs, k)
	}
	sort.Strings(fs)
	return c.Pos + "/" + strings.Join(fs, "+"), m.touched
}

func init() {
	vs.Register(vs.Prop[c42Case]{
		Name: "C42/route",
		Rule: "one form `{body} redir{1,4}` alone, as first stage (`| collector`) or as last stage (`feeder |`) of a pipeline; redirections over operators < > >> <>, destinations default/0-5/7/64/1023/names/invalid (negative, non-numeric, '-'), sources: file names (existing, missing, directory, below a missing directory, empty), &fd (valid, unset, invalid), &-, file objects, pipe maps, non-file values; files pre-filled; the body writes bytes (directly through the port and via print >&n), puts values and reads bytes/values on chosen ports, each action's success or exception recorded; compared with a port-table/POSIX-file model: every action outcome, captured stdout/stderr bytes and values, what the next stage received, final file contents, failing redirection ⇒ exception and body not run, no descriptor into the case directory left open, file objects still open; non-trivial = all redirections valid and an action goes through a redirected port, or a redirection is invalid",
		Gen:  c42Gen, Check: c42Check, Class: c42Class,
		Quick: 3000, Thorough: 30000,
		Timeout: 30 * time.Second,
		Known: []vs.Known[c42Case]{
			{Key: c42KeyNegFd, Case: c42Case{Pos: "alone", Redirs: []c42Redir{{Dst: "-5", Op: ">", Kind: "fd", Src: "1"}}, Acts: []c42Act{{K: "print", Fd: 1}}}},
			{Key: c42KeyNegFd, Case: c42Case{Pos: "alone", Redirs: []c42Redir{{Dst: "", Op: ">", Kind: "fd", Src: "-2"}}, Acts: []c42Act{{K: "print", Fd: 1}}}},
			{Key: c42KeyDangling, Case: c42Case{Pos: "alone",
				Redirs: []c42Redir{{Op: ">", Kind: "file", Src: "f0"}, {Dst: "2", Op: ">", Kind: "fd", Src: "1"}, {Op: ">", Kind: "file", Src: "f1"}},
				Acts:   []c42Act{{K: "print", Fd: 1}, {K: "print", Fd: 2}}}},
			{Key: c42KeyDangling, Case: c42Case{Pos: "alone",
				Redirs: []c42Redir{{Op: ">", Kind: "file", Src: "f0"}, {Dst: "1", Op: ">", Kind: "fd", Src: "1"}},
				Acts:   []c42Act{{K: "wb", Fd: 1}}}},
			{Key: c42KeyStdinLater, Case: c42Case{Pos: "last", Files: [3]c42File{{Exists: true, Content: "0123456789"}},
				Redirs: []c42Redir{{Op: "<", Kind: "file", Src: "f0"}},
				Acts:   []c42Act{{K: "rb", Fd: 0}, {K: "print", Fd: 1}}}},
		},
	})
}
