package props

// C43/name: variable, command and index completion (see c43_test.go).

import (
	"fmt"
	"os"
	"path/filepath"
	"strings"
	"unicode/utf8"

	"pgregory.net/rapid"
	"src.elv.sh/pkg/edit/complete"
	"src.elv.sh/pkg/eval"
	"src.elv.sh/pkg/parse"
	"src.elv.sh/pkg/parse/np"
	"verif/elv"
	"verif/vs"
)

var c43Names0 = []string{"c43a", "c43-b", "c43_c", "c43 d", "c43.e", "c43'f", "c43\"g", "c43$h", "c43é", "c43*i", "c43\nj", "c43\tk", "c43\xffl", "c43;m", "c43|n", "c43#o", "c43(p", "c43[q]",
	"c43{r}", "c43=s", "c43,t", "c43\\u", "c43>v", "C43w", "c4", "c43", "c43^w", "c43@x", "c43%y", "c43!z", "c43?", "c43&", "c43ab", "c43a b", "c43​", "c43世界", "c43''", "c43 "}

// c43Safe: names that need no quoting anywhere (letters, digits, - and _).
func c43Safe(s string) bool {
	if s == "" {
		return false
	}
	for _, r := range s {
		if !(r < 0x80 && (r >= 'a' && r <= 'z' || r >= 'A' && r <= 'Z' || r >= '0' && r <= '9' || r == '-' || r == '_')) {
			return false
		}
	}
	return true
}

func c43Quote(s string) string {
	if utf8.ValidString(s) && !strings.ContainsRune(s, utf8.RuneError) {
		return c43QuoteSingle(s)
	}
	return c43QuoteDouble(s)
}

type c43NameCase struct {
	Vars   []vs.B `json:"vars"`   // global variables, value c43val<i>
	Fns    []vs.B `json:"fns"`    // global functions, output c43fn<i>
	NsVars []vs.B `json:"nsvars"` // variables of the namespace c43ns:, value c43nsval<i>
	Exts   []vs.B `json:"exts"`   // executables in the only PATH directory
	Envs   []vs.B `json:"envs"`   // environment variables
	Keys   []vs.B `json:"keys"`   // keys of the map $c43map, value c43key<i>
	// Kind: var (after $), lhs (argument of set/tmp/del), cmd, index.
	Kind   string `json:"kind"`
	Before string `json:"before"` // code before the word (without the $ of a variable)
	Sigil  string `json:"sigil"`  // var/lhs: "" or "@"
	Ns     string `json:"ns"`     // var/lhs/cmd: "", "c43ns:", "e:", "E:"
	Prefix vs.B   `json:"prefix"` // typed beginning of the name
	Style  string `json:"style"`  // bare single double
	Open   bool   `json:"open"`   // quote left open
	After  string `json:"after"`
	Strict bool   `json:"strict,omitempty"`
}

func c43PickNames(t *rapid.T, label string, lo, hi int, ok func(string) bool) []vs.B {
	n := rapid.IntRange(lo, hi).Draw(t, label+"#")
	seen := map[string]bool{}
	var out []vs.B
	for i := 0; i < n; i++ {
		s := rapid.SampledFrom(c43Names0).Draw(t, label)
		if seen[s] || (ok != nil && !ok(s)) {
			continue
		}
		seen[s] = true
		out = append(out, vs.B(s))
	}
	return out
}

var c43NameBefores = map[string][]string{
	"var":   {"c43cmd ", "c43cmd x ", "put (c43cmd ", "c43a | c43cmd ", "var c43loc = 1; c43cmd ", "fn c43lf { }\nc43cmd ", "{|c43p| c43cmd ", "c43cmd > ", "c43cmd [", "c43cmd &k="},
	"lhs":   {"set ", "tmp ", "del ", "set c43a ", "c43x | set ", "var c43loc = 1; del ", "{|c43p| set "},
	"cmd":   {"", "c43a | ", "put (", "c43cmd { ", "c43a;", "fn c43lf { }; ", "if ?("},
	"index": {"c43cmd $c43map[", "put $c43map[", "c43cmd x $c43map["},
}

func c43GenNameCase(t *rapid.T) c43NameCase {
	var c c43NameCase
	noSlash := func(s string) bool { return !strings.Contains(s, "/") }
	c.Vars = c43PickNames(t, "var", 2, 6, nil)
	c.Fns = c43PickNames(t, "fn", 1, 4, nil)
	c.NsVars = c43PickNames(t, "nsvar", 1, 4, nil)
	c.Exts = c43PickNames(t, "ext", 1, 4, noSlash)
	c.Envs = c43PickNames(t, "env", 0, 2, func(s string) bool { return !strings.ContainsAny(s, "=\x00") })
	c.Keys = c43PickNames(t, "key", 1, 5, nil)
	c.Kind = rapid.SampledFrom([]string{"var", "var", "var", "lhs", "cmd", "cmd", "cmd", "index"}).Draw(t, "kind")
	c.Before = rapid.SampledFrom(c43NameBefores[c.Kind]).Draw(t, "before")
	var pool []vs.B
	switch c.Kind {
	case "var", "lhs":
		c.Sigil = rapid.SampledFrom([]string{"", "", "", "@"}).Draw(t, "sigil")
		c.Ns = rapid.SampledFrom([]string{"", "", "", "c43ns:", "c43ns:", "e:", "E:"}).Draw(t, "ns")
		if strings.HasPrefix(c.Before, "del") || strings.HasSuffix(c.Before, "del ") {
			c.Ns = ""
		}
		switch c.Ns {
		case "":
			pool = c.Vars
		case "c43ns:":
			pool = c.NsVars
		case "e:":
			pool = c.Exts
		case "E:":
			pool = c.Envs
		}
	case "cmd":
		c.Ns = rapid.SampledFrom([]string{"", "", "", "c43ns:", "e:"}).Draw(t, "ns")
		pool = c.Fns
		if c.Ns == "e:" || (c.Ns == "" && rapid.Bool().Draw(t, "?ext")) {
			pool = c.Exts
		}
		if c.Ns == "c43ns:" {
			pool = []vs.B{"c43nf"}
		}
	case "index":
		pool = c.Keys
	}
	prefix := ""
	switch p := rapid.IntRange(0, 9).Draw(t, "prefix?"); {
	case p <= 5 && len(pool) > 0:
		name := string(rapid.SampledFrom(pool).Draw(t, "of"))
		cut := rapid.IntRange(0, len(name)).Draw(t, "cut")
		for cut > 0 && cut < len(name) && !utf8.RuneStart(name[cut]) {
			cut--
		}
		prefix = name[:cut]
	case p <= 7:
		prefix = ""
	default:
		prefix = rapid.SampledFrom([]string{"c", "c4", "c43", "C", "zz"}).Draw(t, "other")
	}
	c.Prefix = vs.B(prefix)
	styles := []string{"single", "double"}
	if !utf8.ValidString(prefix) || strings.ContainsRune(prefix, utf8.RuneError) {
		styles = []string{"double"}
	}
	if c43Safe(prefix) || (prefix == "" && c.Kind != "index" && c.Kind != "lhs") || (prefix == "" && c.Ns != "") {
		styles = append(styles, "bare", "bare", "bare", "bare")
	}
	if prefix == "" && c.Ns == "" && (c.Kind == "index" || c.Kind == "lhs" || c.Kind == "cmd") {
		styles = []string{"bare"} // nothing typed at all
	}
	c.Style = rapid.SampledFrom(styles).Draw(t, "style")
	c.After = rapid.SampledFrom([]string{"", "", "", " c43z", ";c43z", ")", " }", "\n"}).Draw(t, "after")
	if c.Style != "bare" && rapid.IntRange(0, 2).Draw(t, "open") == 0 {
		c.Open = true
		c.After = ""
	}
	if c.Style != "bare" {
		c.Sigil = "" // $@'a b' is not a way to write a variable
	}
	if c.typed() == "" && c.After != "" && (strings.HasPrefix(c.After, " ") || c.Before == "") && vs.KnownOpen("C43:new-word-inserted-at-end-of-whitespace") {
		// (with nothing before the cursor the separator after it is taken, e.g. ";c43z" cursor 0)
		vs.Excluded("empty word with whitespace after the cursor, or at offset 0 before a separator (open finding C43:new-word-inserted-at-end-of-whitespace)")
		c.After = ""
	}
	if c.Kind == "index" && c.After != "" {
		c.After = "]" + c.After
	}
	return c
}

// typed returns the source of the partial word (for var: what follows the $).
func (c c43NameCase) typed() string {
	text := c.Ns + string(c.Prefix)
	var q string
	switch c.Style {
	case "bare":
		q = text
	case "single":
		q = c43QuoteSingle(text)
	default:
		q = c43QuoteDouble(text)
	}
	if c.Open && c.Style != "bare" {
		q = q[:len(q)-1]
	}
	return c.Sigil + q
}

type c43NameInfo struct {
	status  string
	checked int
	quoted  bool
	ns      bool
}

func c43CheckName(c c43NameCase, info *c43NameInfo) error {
	e, err := c43Enter()
	if err != nil {
		return fmt.Errorf("harness: %v", err)
	}
	defer e.leave()
	bin := filepath.Join(e.root, "bin")
	exts := map[string]bool{}
	for _, x := range c.Exts {
		if err := os.WriteFile(filepath.Join(bin, string(x)), []byte("#!/bin/sh\n"), 0o755); err != nil {
			vs.Excluded("file system refused an executable name")
			continue
		}
		exts[string(x)] = true
	}
	envs := map[string]bool{}
	for i, x := range c.Envs {
		c43Setenv(e, string(x), fmt.Sprintf("c43env%d", i))
		envs[string(x)] = true
	}
	// The interpreter and what it knows.
	ev := eval.NewEvaler()
	values := map[string]string{} // variable qname -> value
	fnOut := map[string]string{}  // command name -> output
	keyVal := map[string]string{} // map key -> value
	var setup strings.Builder
	for i, v := range c.Vars {
		fmt.Fprintf(&setup, "var %s = c43val%d\n", c43Quote(string(v)), i)
		values[string(v)] = fmt.Sprintf("c43val%d", i)
	}
	for i, f := range c.Fns {
		if _, dup := values[string(f)+"~"]; dup {
			continue
		}
		fmt.Fprintf(&setup, "fn %s { put c43fn%d }\n", c43Quote(string(f)), i)
		fnOut[string(f)] = fmt.Sprintf("c43fn%d", i)
	}
	setup.WriteString("var c43ns: = (ns [&c43nf~={ put c43nsfn }")
	fnOut["c43ns:c43nf"] = "c43nsfn"
	for i, v := range c.NsVars {
		fmt.Fprintf(&setup, " &%s=c43nsval%d", c43Quote(string(v)), i)
		values["c43ns:"+string(v)] = fmt.Sprintf("c43nsval%d", i)
	}
	setup.WriteString("])\nvar c43map = [&c43dummy=x")
	keyVal["c43dummy"] = "x"
	for i, k := range c.Keys {
		fmt.Fprintf(&setup, " &%s=c43key%d", c43Quote(string(k)), i)
		keyVal[string(k)] = fmt.Sprintf("c43key%d", i)
	}
	setup.WriteString("]\n")
	if r := elv.Run(ev, setup.String()); r.Err != nil {
		return fmt.Errorf("harness: setup code %q failed: %v", setup.String(), r.Err)
	}
	for i, x := range c.Envs {
		values["E:"+string(x)] = fmt.Sprintf("c43env%d", i)
	}

	dollar := ""
	if c.Kind == "var" {
		dollar = "$"
	}
	word := dollar + c.typed()
	content := c.Before + word + c.After
	dot := len(c.Before) + len(word)
	res, cerr := complete.Complete(complete.CodeBuffer{Content: content, Dot: dot}, ev, complete.Config{})
	desc := fmt.Sprintf("buffer %q cursor %d (%s completion, typed %q in namespace %q)", content, dot, c.Kind, string(c.Prefix), c.Ns)
	if cerr != nil {
		if info != nil {
			info.status = "no-completion"
		}
		return nil
	}
	if res.Replace.From < 0 || res.Replace.From > res.Replace.To || res.Replace.To > len(content) {
		return fmt.Errorf("%s: replace range %v is not inside the buffer of length %d", desc, res.Replace, len(content))
	}
	want := map[string]string{"var": "variable", "lhs": "argument", "cmd": "command", "index": "index"}[c.Kind]
	if res.Name != want {
		if info != nil {
			info.status = "other:" + res.Name
		}
		return nil
	}
	if info != nil {
		info.status = res.Name
		info.ns = c.Ns != ""
	}
	codeDefined := map[string]bool{}
	for _, n := range []string{"c43loc", "c43lf~", "c43p"} {
		if strings.Contains(c.Before, strings.TrimSuffix(n, "~")) {
			codeDefined[n] = true
		}
	}
	others := 0
	for _, item := range res.Items {
		// Candidates of the harness are all checked, of the others a few.
		if !strings.Contains(item.ToInsert, "c43") && !strings.Contains(item.ToInsert, "C43") && item.ToInsert != "c4" {
			others++
			if others > 4 {
				continue
			}
		}
		from, ins := res.Replace.From, item.ToInsert
		buf := content[:from] + ins + content[res.Replace.To:]
		tree, _ := parse.Parse(parse.Source{Name: "[c43]", Code: buf}, parse.Config{})
		cdesc := fmt.Sprintf("%s: candidate %q -> buffer %q", desc, ins, buf)
		switch c.Kind {
		case "var":
			// The name the candidate stands for: its insertion text read as a string literal.
			candName, ok := c43Literal(ins)
			if !ok {
				return fmt.Errorf("%s: the candidate text is not a (quoted) name", cdesc)
			}
			// Open finding: a name that needs quotes is inserted, quotes and
			// all, behind a prefix (@ or ns:) where a quoted string cannot
			// follow; and with ns: typed inside quotes the range is off.
			if ((c.Ns != "" || c.Sigil != "") && ins != candName) || (c.Ns != "" && c.Style != "bare") {
				if !c.Strict && vs.KnownOpen("C43:variable-quoted-after-prefix") {
					vs.Excluded("variable completion behind @ or ns: with a name that needs quotes, or ns: typed in quotes (open finding C43:variable-quoted-after-prefix)")
					continue
				}
			}
			path := np.FindLeft(tree.Root, from+len(ins))
			var prim *parse.Primary
			if len(path) > 0 {
				prim, _ = path[0].(*parse.Primary)
			}
			if prim == nil || prim.Type != parse.Variable || prim.Range().To != from+len(ins) || prim.Range().From >= from {
				return fmt.Errorf("%s: the text up to the end of the insertion is not one variable", cdesc)
			}
			qname := strings.TrimPrefix(prim.Value, c.Sigil)
			if qname != c.Ns+candName {
				return fmt.Errorf("%s: the completed word is the variable %q, the candidate is %q", cdesc, qname, c.Ns+candName)
			}
			if err := c43VarExists(ev, qname, values, exts, codeDefined, buf[prim.Range().From+1+len(c.Sigil):prim.Range().To]); err != nil {
				return fmt.Errorf("%s: %v", cdesc, err)
			}
			if info != nil && ins != candName {
				info.quoted = true
			}
		case "lhs":
			w := c43Word(tree.Root, from)
			if w == nil || w.Range().To != from+len(ins) {
				return fmt.Errorf("%s: the insertion is not one word", cdesc)
			}
			v, ok := ev.PurelyEvalCompound(w)
			if !ok {
				return fmt.Errorf("%s: the completed word cannot be evaluated statically", cdesc)
			}
			qname := strings.TrimPrefix(v, "@")
			src := buf[w.Range().From:w.Range().To]
			src = strings.TrimPrefix(src, "@")
			if err := c43VarExists(ev, qname, values, exts, codeDefined, src); err != nil {
				return fmt.Errorf("%s: %v", cdesc, err)
			}
			if info != nil && src != qname {
				info.quoted = true
			}
		case "cmd":
			d, err := c43Substitute(ev, content, from, res.Replace.To, ins)
			if err != nil {
				return fmt.Errorf("%s: %v", cdesc, err)
			}
			if err := c43StyleErr(c.Style, d); err != nil {
				return fmt.Errorf("%s: %v", cdesc, err)
			}
			v := d.value
			switch {
			case fnOut[v] != "":
				r := elv.Run(ev, d.src)
				if r.Err != nil || len(r.Values) != 1 || r.Values[0] != any(fnOut[v]) {
					return fmt.Errorf("%s: running %s gives %s, error %v; the function %q puts %s", cdesc, d.src, elv.Reprs(r.Values), r.Err, v, fnOut[v])
				}
			case exts[v] || (strings.HasPrefix(v, "e:") && exts[v[2:]]):
			case eval.IsBuiltinSpecial[v] || ev.Builtin().HasKeyString(v+"~") || ev.Global().HasKeyString(v+"~") || codeDefined[v+"~"]:
			case strings.HasSuffix(v, ":") && (ev.Builtin().HasKeyString(v) || ev.Global().HasKeyString(v)):
			case strings.HasPrefix(v, "c43ns:") && values[strings.TrimSuffix(v, "~")] != "":
			default:
				return fmt.Errorf("%s: the completed word evaluates to %q, which is no function, special command, namespace or external command", cdesc, v)
			}
			if info != nil && d.typ != parse.Bareword {
				info.quoted = true
			}
		case "index":
			d, err := c43Substitute(ev, content, from, res.Replace.To, ins)
			if err != nil {
				return fmt.Errorf("%s: %v", cdesc, err)
			}
			if err := c43StyleErr(c.Style, d); err != nil {
				return fmt.Errorf("%s: %v", cdesc, err)
			}
			want, ok := keyVal[d.value]
			if !ok {
				return fmt.Errorf("%s: the completed word evaluates to %q, which is not a key of the map", cdesc, d.value)
			}
			r := elv.Run(ev, "put $c43map["+d.src+"]")
			if r.Err != nil || len(r.Values) != 1 || r.Values[0] != any(want) {
				return fmt.Errorf("%s: `put $c43map[%s]` gives %s, error %v; want %q", cdesc, d.src, elv.Reprs(r.Values), r.Err, want)
			}
			if info != nil && d.typ != parse.Bareword {
				info.quoted = true
			}
		}
		if info != nil {
			info.checked++
		}
	}
	return nil
}

// c43Literal reads s as one string literal (bareword or quoted).
func c43Literal(s string) (string, bool) {
	tree, err := parse.Parse(parse.Source{Name: "[c43lit]", Code: "x " + s}, parse.Config{})
	if err != nil {
		return "", false
	}
	w := c43Word(tree.Root, 2)
	if w == nil || w.Range().To != 2+len(s) {
		return "", false
	}
	return (*eval.Evaler)(nil).PurelyEvalCompound(w)
}

// c43VarExists: qname must be a variable the interpreter (or the code before
// the cursor) defines; src is how it is written after the $. For variables of
// the harness the real interpreter must give their value.
func c43VarExists(ev *eval.Evaler, qname string, values map[string]string, exts map[string]bool, codeDefined map[string]bool, src string) error {
	if want, ok := values[qname]; ok {
		r := elv.Run(ev, "put $"+src)
		if r.Err != nil || len(r.Values) != 1 || r.Values[0] != any(want) {
			return fmt.Errorf("`put $%s` gives %s, error %v; the variable %q holds %q", src, elv.Reprs(r.Values), r.Err, qname, want)
		}
		return nil
	}
	switch {
	case codeDefined[qname]:
	case qname == "e:" || qname == "E:":
	case strings.HasPrefix(qname, "e:") && exts[strings.TrimSuffix(qname[2:], "~")]:
	case strings.HasPrefix(qname, "E:"):
		if _, ok := os.LookupEnv(qname[2:]); !ok {
			return fmt.Errorf("%q is not an environment variable", qname)
		}
	case ev.Builtin().HasKeyString(qname) || ev.Global().HasKeyString(qname):
	default:
		r := elv.Run(ev, "put $"+src)
		if r.Err != nil {
			return fmt.Errorf("the completed word names the variable %q, which does not exist: `put $%s` fails with %v", qname, src, r.Err)
		}
	}
	return nil
}

func init() {
	var memo struct {
		key string
		err error
		ok  bool
	}
	key := func(c c43NameCase) string { return fmt.Sprintf("%#v", c) }
	strict := func(c c43NameCase) c43NameCase { c.Strict = true; return c }
	vs.Register(vs.Prop[c43NameCase]{
		Name: "C43/name",
		Rule: "a fresh interpreter with 2-6 variables, 1-4 functions, a namespace with 1-4 variables and a function, 1-4 executables in the only PATH directory, 0-2 environment variables and a map with 1-5 keys, all with hostile names (spaces, quotes, $ * ; | # ( [ { = , \\ > newline, tab, invalid UTF-8, zero-width, wide) and distinct values; a partial name (prefix of an existing name, empty, or other) typed bare or in single/double quotes (closed or open) after $ / $@ / a namespace prefix, as argument of set/tmp/del, as command, or as map index, in several code contexts incl. variables defined by the code itself; every candidate of the harness (and 4 others) is substituted; the completed word must denote the candidate: the real interpreter gives the variable's value / the function's output / the map element; non-trivial = at least one candidate checked",
		Gen:  c43GenNameCase,
		Check: func(c c43NameCase) error {
			if memo.ok && memo.key == key(c) {
				memo.ok = false
				return memo.err
			}
			return c43CheckName(c, nil)
		},
		Class: func(c c43NameCase) (string, bool) {
			var info c43NameInfo
			memo.ok = false
			func() {
				defer func() { recover() }()
				err := c43CheckName(c, &info)
				memo.key, memo.err, memo.ok = key(c), err, true
			}()
			if info.status == "" {
				info.status = "failed"
			}
			label := info.status
			if info.ns {
				label += "/in-namespace"
			}
			label += "/" + c.Style
			if info.checked == 0 {
				return label + "/0-checked", false
			}
			if info.quoted {
				label += "/needs-quotes"
			}
			return label, true
		},
		Quick: 1200, Thorough: 15000,
		Known: []vs.Known[c43NameCase]{
			{Key: "C43:new-word-inserted-at-end-of-whitespace", Case: strict(c43NameCase{Fns: []vs.B{"c43a"}, Kind: "cmd", Style: "bare", After: ";c43z"})},
			{Key: "C43:variable-quoted-after-prefix", Case: strict(c43NameCase{Vars: []vs.B{"c43a"}, Exts: []vs.B{"c43.e"}, Kind: "var", Before: "c43cmd ", Ns: "e:", Style: "bare"})},
			{Key: "C43:variable-quoted-after-prefix", Case: strict(c43NameCase{Vars: []vs.B{"c43 d"}, Kind: "var", Before: "c43cmd ", Sigil: "@", Style: "bare"})},
			{Key: "C43:variable-quoted-after-prefix", Case: strict(c43NameCase{Vars: []vs.B{"c43a"}, NsVars: []vs.B{"c43a"}, Kind: "var", Before: "c43cmd ", Ns: "c43ns:", Prefix: "c", Style: "single", Open: true})},
		},
	})
}
