package props

// C43 Completion inserts text that evaluates to the chosen candidate.
//
//   C43/file  file name completion (argument, redirection target, command with
//             a path) in a temp directory tree with hostile names
//   C43/name  variable, command and index completion against an interpreter
//             with hostile variable / function / namespace / external names
//             (c43_name_test.go)
//
// Oracle: the harness knows what it created (directory entries, variables,
// functions with distinct values). It types a partial word in a chosen quoting
// style into generated code, calls complete.Complete, substitutes every
// candidate's ToInsert for the reported range, parses the new buffer, finds
// the word at the start of the range and evaluates it (statically with
// PurelyEvalCompound and really with `put <word>`): the value must be one of
// the expected candidates, the set of values must be exactly the expected set
// (file names), and the kind of quoting must follow the style the word was
// started in. The quoting of the typed text and the expected sets are computed
// by the harness' own code, not by pkg/parse's Quote or the completer.

import (
	"fmt"
	"os"
	"path/filepath"
	"sort"
	"strings"
	"sync"
	"unicode"
	"unicode/utf8"

	"pgregory.net/rapid"
	"src.elv.sh/pkg/edit/complete"
	"src.elv.sh/pkg/eval"
	"src.elv.sh/pkg/parse"
	"verif/elv"
	"verif/vs"
)

// ---- quoting written from the language reference -------------------------------------------

func c43QuoteSingle(s string) string { return "'" + strings.ReplaceAll(s, "'", "''") + "'" }

func c43QuoteDouble(s string) string {
	var sb strings.Builder
	sb.WriteByte('"')
	for len(s) > 0 {
		r, n := utf8.DecodeRuneInString(s)
		switch {
		case r == utf8.RuneError && n == 1:
			fmt.Fprintf(&sb, `\x%02x`, s[0])
		case r == '"' || r == '\\':
			sb.WriteByte('\\')
			sb.WriteRune(r)
		case r == '\n':
			sb.WriteString(`\n`)
		case r == '\t':
			sb.WriteString(`\t`)
		case r < 0x20 || r == 0x7f:
			fmt.Fprintf(&sb, `\x%02x`, r)
		default:
			sb.WriteString(s[:n])
		}
		s = s[n:]
	}
	sb.WriteByte('"')
	return sb.String()
}

// c43BareTypable: text the harness types without quotes (a conservative
// subset of the bareword characters of the language reference).
func c43BareTypable(s string) bool {
	if s == "" || s[0] == '~' {
		return false
	}
	for _, r := range s {
		ok := r < 0x80 && (unicode.IsLetter(r) || unicode.IsDigit(r) || strings.ContainsRune("%+-./:@_", r))
		ok = ok || r == 'é' || r == '世' || r == '界'
		if !ok {
			return false
		}
	}
	return true
}

// c43Printable: valid UTF-8 whose characters are all printable (so that it
// can be shown legibly inside single quotes).
func c43Printable(s string) bool {
	if !utf8.ValidString(s) {
		return false
	}
	for _, r := range s {
		if r == utf8.RuneError || !unicode.IsPrint(r) {
			return false
		}
	}
	return true
}

// c43MustBeBare: values that are barewords in every context according to the
// language reference (ASCII letters and digits, the symbols !%+-./:@\_ , and
// printable non-ASCII; ',' '=' '~' are context dependent and left out), so a
// word started bare has no reason to get quotes.
func c43MustBeBare(s string) bool {
	if s == "" || s[0] == '~' || !c43Printable(s) {
		return false
	}
	for _, r := range s {
		if r < 0x80 && !(unicode.IsLetter(r) || unicode.IsDigit(r) || strings.ContainsRune(`!%+-./:@\_`, r)) {
			return false
		}
	}
	return true
}

// ---- the typed word -------------------------------------------------------------------------

// c43Piece is one primary of the typed word. Style: bare, single, double,
// tilde (a literal ~), abs (the absolute path of the working directory, typed bare).
type c43Piece struct {
	Style string `json:"style"`
	Text  vs.B   `json:"text,omitempty"`
}

type c43Typed struct {
	Pieces []c43Piece `json:"pieces"`
	Open   bool       `json:"open,omitempty"`   // the last quote is not closed (cursor at the end of the buffer)
	Inside bool       `json:"inside,omitempty"` // cursor before the closing quote
	Tail   string     `json:"tail,omitempty"`   // bare text glued to the word after the cursor
}

// render returns the source of the word, the offset of the cursor in it and its value.
func (w c43Typed) render(abs, home string) (src string, dot int, value string, lastStyle string) {
	for i, p := range w.Pieces {
		last := i == len(w.Pieces)-1
		t := string(p.Text)
		lastStyle = p.Style
		switch p.Style {
		case "bare":
			src += t
			value += t
		case "abs":
			src += abs
			value += abs
			lastStyle = "bare"
		case "tilde":
			src += "~"
			value += home
			lastStyle = "bare"
		case "single", "double":
			q := c43QuoteSingle(t)
			if p.Style == "double" {
				q = c43QuoteDouble(t)
			}
			value += t
			if last && w.Open {
				q = q[:len(q)-1]
			}
			src += q
			if last && w.Inside && !w.Open {
				dot = len(src) - 1
				src += w.Tail
				return src, dot, value, lastStyle
			}
		}
	}
	dot = len(src)
	src += w.Tail
	return src, dot, value, lastStyle
}

// c43GenPieces types text in 1-2 pieces with random admissible styles.
func c43GenPieces(t *rapid.T, label, text string, force string) []c43Piece {
	if text == "" {
		return nil
	}
	one := func(s, lbl string) c43Piece {
		styles := []string{"single", "double"}
		if !utf8.ValidString(s) || strings.ContainsRune(s, utf8.RuneError) {
			styles = []string{"double"} // the parser turns invalid bytes inside single quotes into U+FFFD
		}
		if c43BareTypable(s) {
			styles = append(styles, "bare", "bare", "bare")
		}
		st := rapid.SampledFrom(styles).Draw(t, lbl)
		if force != "" {
			for _, x := range styles {
				if x == force {
					st = force
				}
			}
		}
		return c43Piece{Style: st, Text: vs.B(s)}
	}
	if len(text) >= 2 && rapid.IntRange(0, 3).Draw(t, label+"?split") == 0 {
		cut := rapid.IntRange(1, len(text)-1).Draw(t, label+"cut")
		for cut > 0 && !utf8.RuneStart(text[cut]) {
			cut--
		}
		if cut > 0 {
			a, b := one(text[:cut], label+"style1"), one(text[cut:], label+"style2")
			if a.Style != b.Style {
				return []c43Piece{a, b}
			}
		}
	}
	return []c43Piece{one(text, label+"style")}
}

// ---- contexts ---------------------------------------------------------------------------------

type c43Ctx struct {
	Before string
	Kind   string // argument | redir | command
}

var c43FileCtxs = []c43Ctx{
	{"c43cmd ", "argument"}, {"c43cmd ", "argument"}, {"c43cmd c43a ", "argument"}, {"c43cmd &k=v  ", "argument"}, {"c43a | c43cmd ", "argument"},
	{"c43a; c43cmd x ", "argument"}, {"c43a\nc43cmd 'q a' ", "argument"}, {"put (c43cmd ", "argument"}, {"c43cmd { c43in ", "argument"},
	{"if ?(c43cmd ", "argument"}, {"c43cmd $pid \"d q\" ", "argument"}, {"e:c43x ^\n ", "argument"}, {"c43cmd [a b] ", "argument"}, {"c43cmd > c43o ", "argument"},
	{"c43cmd > ", "redir"}, {"c43cmd >", "redir"}, {"c43cmd x < ", "redir"}, {"c43cmd 2>> ", "redir"}, {"c43a | c43cmd <>", "redir"},
	{"", "command"}, {"c43a | ", "command"}, {"c43a;", "command"}, {"put (", "command"}, {"c43cmd { ", "command"}, {"c43a\n", "command"},
}

var c43Afters = []string{"", "", "", " ", " c43z", ";c43z", "|c43z", ")", " }", "\n", "\nc43z x", " # c"}

// ---- directory trees --------------------------------------------------------------------------

type c43File struct {
	Name vs.B   `json:"name"`
	Kind string `json:"kind"` // file exec dir linkdir linkfile dangling
}

var c43NameHeads = []string{"c43", "c43", "c4", ".c43", ".c", "~c43", "c43 ", "-c4", "c43é", "C43", "", "c43'", "c43\"", "$c43", "*c43", "c43\n", "c43\xff", "#c", "c43."}
var c43NameTails = []string{"", "a", "b", "ab", "a b", " ", "'", "''", "\"", "\\", "$x", "*", "?", "[x]", "(y)", "{z}", "|", "&", ";", "<", ">", "^", "#", "~", "=", ",", "@", "%", "+", "!", ":", ".", "..", "-",
	"\t", "\n", "\r", "\x7f", "\x1b[m", "é", "世界", "́", "​", "�", "\U0001F600", "\x80", "\xff", "\xe4\xb8", ".txt", ".tar.gz", "x'y\"z", "a=b", "$(c43)", "`c`", " -rf", "\\n", "\"'"}
var c43SubNames = []string{"c43d", "c43d", "c43 sub", ".c43hid", "~c43t", "c43'q", "c43\"d", "c43é世", "c43$d", "c43;d", "-c43d", "c43\nd", "c43\xffd"}
var c43FileKinds = []string{"file", "file", "file", "exec", "dir", "dir", "linkdir", "linkfile", "dangling"}

func c43ValidName(n string) bool {
	return n != "" && n != "." && n != ".." && len(n) <= 80 && !strings.ContainsAny(n, "/\x00")
}

func c43GenFiles(t *rapid.T, label string, lo, hi int, taken map[string]bool) []c43File {
	n := rapid.IntRange(lo, hi).Draw(t, label+"#")
	var out []c43File
	for i := 0; i < n; i++ {
		name := rapid.SampledFrom(c43NameHeads).Draw(t, label+"head") + rapid.SampledFrom(c43NameTails).Draw(t, label+"tail")
		if rapid.IntRange(0, 3).Draw(t, label+"?tail2") == 0 {
			name += rapid.SampledFrom(c43NameTails).Draw(t, label+"tail2")
		}
		if !c43ValidName(name) || taken[name] {
			continue
		}
		taken[name] = true
		out = append(out, c43File{Name: vs.B(name), Kind: rapid.SampledFrom(c43FileKinds).Draw(t, label+"kind")})
	}
	return out
}

// ---- C43/file -----------------------------------------------------------------------------------

type c43FileCase struct {
	Files   []c43File `json:"files"`   // entries of the working directory
	SubName vs.B      `json:"subname"` // a subdirectory of it ...
	Sub     []c43File `json:"sub"`     // ... and its entries
	// DirKind says how the directory part is typed: "" (none), "./", "sub/",
	// "./sub/", "sub//", "~/" (HOME is the subdirectory), "abs/" (absolute path
	// of the working directory), "../w/" (the working directory via its parent).
	DirKind string   `json:"dirkind"`
	Prefix  vs.B     `json:"prefix"` // typed beginning of the file name
	Word    c43Typed `json:"word"`   // how DirKind+Prefix is typed
	Ctx     int      `json:"ctx"`
	After   string   `json:"after"`
}

func c43GenFileCase(t *rapid.T) c43FileCase {
	var c c43FileCase
	taken := map[string]bool{}
	c.SubName = vs.B(rapid.SampledFrom(c43SubNames).Draw(t, "subname"))
	taken[string(c.SubName)] = true
	c.Files = c43GenFiles(t, "file", 0, 7, taken)
	c.Sub = c43GenFiles(t, "sub", 0, 4, map[string]bool{})
	c.Ctx = rapid.IntRange(0, len(c43FileCtxs)-1).Draw(t, "ctx")
	kind := c43FileCtxs[c.Ctx].Kind
	dirKinds := []string{"", "", "", "./", "sub/", "./sub/", "sub//", "~/", "abs/", "../w/"}
	if kind == "command" {
		dirKinds = dirKinds[3:] // a command is completed as a file only when it contains a slash
	}
	c.DirKind = rapid.SampledFrom(dirKinds).Draw(t, "dirkind")
	listing, _ := c.listing()
	// the typed beginning of the name
	var prefix string
	switch p := rapid.IntRange(0, 9).Draw(t, "prefix?"); {
	case p <= 5 && len(listing) > 0:
		name := string(rapid.SampledFrom(listing).Draw(t, "of").Name)
		cut := rapid.IntRange(0, len(name)).Draw(t, "cut")
		if rapid.IntRange(0, 7).Draw(t, "?bytecut") != 0 {
			for cut > 0 && cut < len(name) && !utf8.RuneStart(name[cut]) {
				cut--
			}
		}
		prefix = name[:cut]
	case p <= 7:
		prefix = ""
	default:
		prefix = rapid.SampledFrom([]string{"c", "c4", "c43", ".", ".c", "~", "zz", "c43 ", "C", "-", "'", "$"}).Draw(t, "other")
	}
	c.Prefix = vs.B(prefix)
	// how it is typed
	force := rapid.SampledFrom([]string{"", "", "single", "double", "bare"}).Draw(t, "force")
	sub := string(c.SubName)
	var pieces []c43Piece
	rest := ""
	switch c.DirKind {
	case "./":
		rest = "./"
	case "sub/":
		rest = sub + "/"
	case "./sub/":
		rest = "./" + sub + "/"
	case "sub//":
		rest = sub + "//"
	case "~/":
		pieces = append(pieces, c43Piece{Style: "tilde"})
		rest = "/"
	case "abs/":
		pieces = append(pieces, c43Piece{Style: "abs"})
		rest = "/"
	case "../w/":
		rest = "../c43w/"
	}
	if rapid.Bool().Draw(t, "?joined") || rest == "" {
		pieces = append(pieces, c43GenPieces(t, "w", rest+prefix, force)...)
	} else {
		pieces = append(pieces, c43GenPieces(t, "d", rest, "")...)
		pieces = append(pieces, c43GenPieces(t, "p", prefix, force)...)
	}
	// adjacent bare pieces are one primary: merge them
	var merged []c43Piece
	for _, p := range pieces {
		// (two adjacent single-quoted strings would read as one with an escaped quote)
		if n := len(merged); n > 0 && merged[n-1].Style == p.Style && (p.Style == "bare" || p.Style == "single") {
			merged[n-1].Text += p.Text
		} else {
			merged = append(merged, p)
		}
	}
	c.Word.Pieces = merged
	c.After = rapid.SampledFrom(c43Afters).Draw(t, "after")
	if len(merged) == 0 && strings.HasPrefix(c.After, " ") && vs.KnownOpen("C43:new-word-inserted-at-end-of-whitespace") {
		// Open finding: with the cursor inside a run of whitespace the new
		// word is inserted at the end of the run (and of a comment in it).
		vs.Excluded("empty word with whitespace after the cursor (open finding C43:new-word-inserted-at-end-of-whitespace)")
		c.After = ""
	}
	if n := len(merged); n > 0 {
		last := merged[n-1].Style
		quoted := last == "single" || last == "double"
		if quoted {
			switch rapid.IntRange(0, 3).Draw(t, "close") {
			case 0:
				c.Word.Open = true
				c.After = ""
			case 1:
				c.Word.Inside = true
			}
		}
		if !c.Word.Open && rapid.IntRange(0, 9).Draw(t, "?tail") == 0 {
			c.Word.Tail = rapid.SampledFrom([]string{"x", "c43", ".txt", "/"}).Draw(t, "tail")
		}
	}
	return c
}

// listing returns the entries of the directory the typed word points into
// (what the harness created there) and whether that is the subdirectory.
func (c c43FileCase) listing() ([]c43File, bool) {
	switch c.DirKind {
	case "sub/", "./sub/", "sub//", "~/":
		return c.Sub, true
	}
	return append(append([]c43File(nil), c.Files...), c43File{Name: c.SubName, Kind: "dir"}), false
}

// c43Env is the process-global state a case changes; cases run one at a time.
type c43Env struct {
	root, work, cwd0 string
	env              map[string]*string
}

func c43Setenv(e *c43Env, k, v string) {
	if _, saved := e.env[k]; !saved {
		if old, ok := os.LookupEnv(k); ok {
			e.env[k] = &old
		} else {
			e.env[k] = nil
		}
	}
	os.Setenv(k, v)
}

func c43Enter() (*c43Env, error) {
	root, err := os.MkdirTemp("", "verif-c43-")
	if err != nil {
		return nil, err
	}
	if r, err := filepath.EvalSymlinks(root); err == nil {
		root = r
	}
	e := &c43Env{root: root, work: filepath.Join(root, "c43w"), env: map[string]*string{}}
	e.cwd0, _ = os.Getwd()
	if err := os.Mkdir(e.work, 0o755); err != nil {
		os.RemoveAll(root)
		return nil, err
	}
	os.Mkdir(filepath.Join(root, "bin"), 0o755)
	os.WriteFile(filepath.Join(root, "target"), []byte("x"), 0o644)
	if err := os.Chdir(e.work); err != nil {
		os.RemoveAll(root)
		return nil, err
	}
	c43Setenv(e, "PATH", filepath.Join(root, "bin"))
	c43Setenv(e, "HOME", e.work)
	c43Setenv(e, "LS_COLORS", "")
	return e, nil
}

func (e *c43Env) leave() {
	if e.cwd0 != "" {
		os.Chdir(e.cwd0)
	}
	for k, v := range e.env {
		if v == nil {
			os.Unsetenv(k)
		} else {
			os.Setenv(k, *v)
		}
	}
	os.RemoveAll(e.root)
}

// c43Create makes the entries; it returns those that exist afterwards (a file
// system may refuse a name, e.g. invalid UTF-8).
func c43Create(e *c43Env, dir string, files []c43File, subdir string) []c43File {
	var made []c43File
	for _, f := range files {
		p := filepath.Join(dir, string(f.Name))
		var err error
		switch f.Kind {
		case "file":
			err = os.WriteFile(p, nil, 0o644)
		case "exec":
			err = os.WriteFile(p, []byte("#!/bin/sh\n"), 0o755)
		case "dir":
			err = os.Mkdir(p, 0o755)
		case "linkdir":
			err = os.Symlink(subdir, p)
		case "linkfile":
			err = os.Symlink(filepath.Join(e.root, "target"), p)
		case "dangling":
			err = os.Symlink(filepath.Join(e.root, "c43-nowhere"), p)
		}
		if err != nil {
			vs.Excluded("file system refused to create an entry: " + f.Kind)
			continue
		}
		made = append(made, f)
	}
	return made
}

func (f c43File) dirlike() bool { return f.Kind == "dir" || f.Kind == "linkdir" }

var c43Ev = sync.OnceValue(func() *eval.Evaler { return elv.New() })

// c43Word finds the compound that starts at pos in the parsed buffer.
func c43Word(n parse.Node, pos int) *parse.Compound {
	if c, ok := n.(*parse.Compound); ok && c.Range().From == pos && c.Range().To > pos {
		return c
	}
	for _, ch := range parse.Children(n) {
		if r := ch.Range(); r.From <= pos && pos < r.To {
			if c := c43Word(ch, pos); c != nil {
				return c
			}
		}
	}
	return nil
}

type c43Done struct {
	value string
	typ   parse.PrimaryType
	src   string
}

// c43Substitute applies one candidate and evaluates the completed word.
func c43Substitute(ev *eval.Evaler, content string, from, to int, insert string) (c43Done, error) {
	var d c43Done
	buf := content[:from] + insert + content[to:]
	tree, _ := parse.Parse(parse.Source{Name: "[c43]", Code: buf}, parse.Config{})
	w := c43Word(tree.Root, from)
	if w == nil {
		return d, fmt.Errorf("after inserting %q the buffer %q has no word starting at %d", insert, buf, from)
	}
	end := w.Range().To
	if end > from+len(insert) {
		return d, fmt.Errorf("after inserting %q the word %q runs into the following text (buffer %q)", insert, buf[from:end], buf)
	}
	if strings.TrimLeft(insert[end-from:], " ") != "" {
		return d, fmt.Errorf("inserted text %q is not one word: the word is %q, followed by %q", insert, buf[from:end], insert[end-from:])
	}
	d.src = buf[from:end]
	v, ok := ev.PurelyEvalCompound(w)
	if !ok {
		return d, fmt.Errorf("inserted word %s (from %q) cannot be evaluated statically", d.src, insert)
	}
	d.value = v
	if len(w.Indexings) != 1 || len(w.Indexings[0].Indices) != 0 {
		return d, fmt.Errorf("inserted word %s is not a single string literal", d.src)
	}
	d.typ = w.Indexings[0].Head.Type
	switch d.typ {
	case parse.Bareword, parse.SingleQuoted, parse.DoubleQuoted:
	default:
		return d, fmt.Errorf("inserted word %s is not a string literal", d.src)
	}
	// The real interpreter agrees (a literal: no side effects).
	r := elv.Run(c43Ev(), "put "+d.src)
	if r.Err != nil || len(r.Values) != 1 || r.Values[0] != any(v) {
		return d, fmt.Errorf("`put %s` gives %s, error %v; static evaluation gave %q", d.src, elv.Reprs(r.Values), r.Err, v)
	}
	return d, nil
}

// c43StyleErr decides whether the quoting of a candidate follows the started style.
func c43StyleErr(started string, d c43Done) error {
	switch started {
	case "double":
		if d.typ != parse.DoubleQuoted {
			return fmt.Errorf("word was started in double quotes but the candidate %s is not double-quoted", d.src)
		}
	case "single":
		if d.typ == parse.Bareword || (d.typ == parse.DoubleQuoted && c43Printable(d.value)) {
			return fmt.Errorf("word was started in single quotes but the candidate %s (value %q, printable) is not single-quoted", d.src, d.value)
		}
	default:
		if d.typ != parse.Bareword && c43MustBeBare(d.value) {
			return fmt.Errorf("word was started bare and %q is a bareword everywhere, but the candidate is quoted: %s", d.value, d.src)
		}
		if d.typ == parse.DoubleQuoted && c43Printable(d.value) {
			return fmt.Errorf("word was started bare, %q is printable, but the candidate is double-quoted: %s (single quotes are preferred)", d.value, d.src)
		}
	}
	return nil
}

type c43FileInfo struct {
	status   string
	n        int
	quoted   bool
	hostile  bool
	expected int
}

func c43CheckFile(c c43FileCase, info *c43FileInfo) error {
	e, err := c43Enter()
	if err != nil {
		return fmt.Errorf("harness: %v", err)
	}
	defer e.leave()
	sub := filepath.Join(e.work, string(c.SubName))
	if err := os.Mkdir(sub, 0o755); err != nil {
		c43Excluded("file system refused the subdirectory name")
		if info != nil {
			info.status = "fs-refused"
		}
		return nil
	}
	files := c43Create(e, e.work, c.Files, sub)
	subFiles := c43Create(e, sub, c.Sub, sub)
	c43Setenv(e, "HOME", sub)
	cc := c
	cc.Files, cc.Sub = files, subFiles
	listing, _ := cc.listing()

	ctx := c43FileCtxs[c.Ctx%len(c43FileCtxs)]
	wsrc, wdot, seed, started := c.Word.render(e.work, sub)
	content := ctx.Before + wsrc + c.After
	dot := len(ctx.Before) + wdot
	ev := c43Ev()
	res, cerr := complete.Complete(complete.CodeBuffer{Content: content, Dot: dot}, ev, complete.Config{Filterer: complete.FilterPrefix})
	desc := fmt.Sprintf("buffer %q cursor %d (typed %q, context %s)", content, dot, seed, ctx.Kind)
	if cerr != nil {
		if info != nil {
			info.status = "no-completion"
		}
		return nil // nothing offered: nothing to hold
	}
	if res.Replace.From < 0 || res.Replace.From > res.Replace.To || res.Replace.To > len(content) {
		return fmt.Errorf("%s: replace range %v is not inside the buffer of length %d", desc, res.Replace, len(content))
	}
	if len(c.Word.Pieces) == 0 && res.Name != "argument" && res.Name != "redir" && res.Name != "command" {
		return nil
	}
	// What the directory part evaluates to, and the expected candidates.
	dirValue := seed[:len(seed)-len(c.Prefix)]
	prefix := string(c.Prefix)
	atEnd := c.Word.Tail == ""
	type exp struct {
		f    c43File
		must bool
	}
	expect := map[string]exp{}
	for _, f := range listing {
		name := string(f.Name)
		if !strings.HasPrefix(name, prefix) || strings.HasPrefix(name, ".") != strings.HasPrefix(prefix, ".") {
			continue
		}
		must := true
		if res.Name == "command" {
			// Only executables and directories are commands; what a symbolic
			// link counts as is not specified.
			must = f.Kind == "exec" || f.Kind == "dir"
			if f.Kind == "file" {
				continue
			}
		}
		expect[dirValue+name] = exp{f, must}
	}
	if res.Name == "command" && ctx.Kind != "command" || res.Name != "command" && ctx.Kind == "command" {
		// The completer saw another context than the template intends (can
		// happen with an empty word); the per-candidate laws still apply.
		atEnd = false
	}
	seen := map[string]bool{}
	if info != nil {
		info.status, info.n, info.expected = res.Name, len(res.Items), len(expect)
	}
	for _, item := range res.Items {
		d, err := c43Substitute(ev, content, res.Replace.From, res.Replace.To, item.ToInsert)
		if err != nil {
			return fmt.Errorf("%s: candidate %q: %v", desc, item.ToInsert, err)
		}
		// the value names an entry the harness created (a directory may carry a trailing slash)
		v := d.value
		x, ok := expect[v]
		if !ok && strings.HasSuffix(v, "/") {
			if x, ok = expect[strings.TrimSuffix(v, "/")]; ok && !x.f.dirlike() {
				return fmt.Errorf("%s: candidate %s evaluates to %q, but %q is not a directory", desc, d.src, v, string(x.f.Name))
			}
			v = strings.TrimSuffix(v, "/")
		}
		if !ok {
			if !atEnd {
				// cursor inside a word: which part counts as typed is not
				// specified; the candidate must still name an existing entry
				if _, lerr := os.Lstat(d.value); lerr != nil {
					return fmt.Errorf("%s: candidate %s evaluates to %q, which does not exist", desc, d.src, d.value)
				}
				continue
			}
			return fmt.Errorf("%s: candidate %s evaluates to %q, which is not an entry starting with %q of the directory (entries: %s)", desc, d.src, d.value, prefix, c43Names(listing))
		}
		if seen[v] {
			return fmt.Errorf("%s: two candidates evaluate to %q", desc, v)
		}
		seen[v] = true
		if err := c43StyleErr(started, d); err != nil {
			return fmt.Errorf("%s: %v", desc, err)
		}
		if info != nil {
			if d.typ != parse.Bareword {
				info.quoted = true
			}
			if !c43Printable(d.value) {
				info.hostile = true
			}
		}
	}
	if atEnd {
		var missing []string
		for v, x := range expect {
			if x.must && !seen[v] {
				missing = append(missing, v)
			}
		}
		sort.Strings(missing)
		if len(missing) > 0 {
			return fmt.Errorf("%s: %d candidates, but the entries %q start with %q and are not offered (entries: %s)", desc, len(res.Items), missing, prefix, c43Names(listing))
		}
	}
	return nil
}

func c43Names(fs []c43File) string {
	var out []string
	for _, f := range fs {
		out = append(out, fmt.Sprintf("%q(%s)", string(f.Name), f.Kind))
	}
	return "[" + strings.Join(out, " ") + "]"
}

func c43Excluded(reason string) { vs.Excluded(reason) }

func init() {
	var memo struct {
		key string
		err error
		ok  bool
	}
	key := func(c c43FileCase) string { return fmt.Sprintf("%#v", c) }
	vs.Register(vs.Prop[c43FileCase]{
		Name: "C43/file",
		Rule: "a fresh temp directory with 0-7 entries plus a subdirectory with 0-4 entries; names built from hostile heads/tails (spaces, quotes, $ * ? [ ( { | & ; < > # ~ = , leading dot/tilde/dash, newline, tab, ESC, combining and wide characters, U+FFFD, invalid UTF-8); kinds file/executable/directory/symlink to dir/symlink to file/dangling symlink; a partial word = directory part (none, ./, sub/, ./sub/, sub//, ~/ with HOME set, absolute, ../w/) + a prefix of an existing name (rune or byte cut), empty, or other, typed in 1-3 pieces bare/single/double-quoted (last quote closed, open, or cursor before the closing quote; sometimes with text glued after the cursor) in 25 code contexts (argument, redirection target, command) followed by 12 continuations; every candidate is substituted and evaluated; non-trivial = completion offered at least one candidate",
		Gen:  c43GenFileCase,
		Check: func(c c43FileCase) error {
			if memo.ok && memo.key == key(c) {
				memo.ok = false
				return memo.err
			}
			return c43CheckFile(c, nil)
		},
		Class: func(c c43FileCase) (string, bool) {
			var info c43FileInfo
			memo.ok = false
			func() {
				defer func() { recover() }()
				err := c43CheckFile(c, &info)
				memo.key, memo.err, memo.ok = key(c), err, true
			}()
			if info.status != "argument" && info.status != "redir" && info.status != "command" {
				if info.status == "" {
					info.status = "failed"
				}
				return info.status, false
			}
			_, _, _, started := c.Word.render("/abs", "/home")
			if len(c.Word.Pieces) == 0 {
				started = "empty"
			}
			label := info.status + "/" + started
			switch {
			case info.n == 0:
				return label + "/0-candidates", false
			case info.hostile:
				label += "/unprintable-name"
			case info.quoted:
				label += "/needs-quotes"
			default:
				label += "/plain"
			}
			return label, true
		},
		Quick: 1500, Thorough: 20000,
		Known: []vs.Known[c43FileCase]{
			{Key: "C43:new-word-inserted-at-end-of-whitespace", Case: c43FileCase{SubName: "c43d", DirKind: "", Ctx: 0, After: " c43z"}},
			{Key: "C43:new-word-inserted-at-end-of-whitespace", Case: c43FileCase{SubName: "c43d", Files: []c43File{{Name: "c43f", Kind: "file"}}, DirKind: "", Ctx: 0, After: " # c"}},
		},
	})
}
