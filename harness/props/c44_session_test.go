package props

// C44/session: a real `elvish -lsp` subprocess driven over stdio JSON-RPC with
// Content-Length framing.
//
// The binary is built once per test process (go build -o <tmp>/elvish
// ./cmd/elvish in $VERIF_REPO, default /repo), opened, and its directory
// removed at once; it is executed through /proc/self/fd/N, so nothing is left
// behind however the run ends. A server runs in an empty directory of its own
// (unlinked as soon as the server has started) with an empty PATH.
//
// Oracle per session (a list of operations, fixed in the case):
//   * initialize gets a result with capabilities;
//   * didOpen / didChange (one full-text change) is followed by exactly one
//     publishDiagnostics for that URI whose ranges are the ranges of
//     parse.Parse's errors for that text converted by c44Table (an offset
//     between CR and LF may be reported as the end of the line or the start of
//     the next one);
//   * hover / completion at any position on an open document get a response
//     with the request's id and a result (null, a Hover with markdown contents,
//     a list of completion items whose text edit range consists of valid
//     positions of the document, start <= end) or a well-formed error object;
//     requests on a document that was never opened get any well-formed
//     response, an unknown method an error object;
//   * the server is still running after the last operation.

import (
	"bufio"
	"bytes"
	"encoding/json"
	"fmt"
	"hash/fnv"
	"io"
	"os"
	"os/exec"
	"path/filepath"
	"strconv"
	"strings"
	"sync"
	"time"

	"pgregory.net/rapid"
	"src.elv.sh/pkg/parse"
	"verif/vs"
)

// ---- building the server ----------------------------------------------------------

var (
	c44BuildOnce sync.Once
	c44BinFile   *os.File // kept open; the path on disk is gone
	c44BuildErr  string
)

func c44Repo() string {
	if r := os.Getenv("VERIF_REPO"); r != "" {
		return r
	}
	return "/repo"
}

func c44Binary() string {
	c44BuildOnce.Do(func() {
		base := os.Getenv("VERIF_WORK")
		dir, err := os.MkdirTemp(base, "verif-c44-")
		if err != nil {
			c44BuildErr = err.Error()
			return
		}
		defer os.RemoveAll(dir)
		bin := filepath.Join(dir, "elvish")
		cmd := exec.Command("go", "build", "-buildvcs=false", "-o", bin, "./cmd/elvish")
		cmd.Dir = c44Repo()
		env := []string{}
		for _, e := range os.Environ() {
			if !strings.HasPrefix(e, "GOFLAGS=") {
				env = append(env, e)
			}
		}
		cmd.Env = append(env, "GOFLAGS=-mod=readonly", "GOPROXY=off", "GOSUMDB=off", "GOTOOLCHAIN=local")
		if out, err := cmd.CombinedOutput(); err != nil {
			c44BuildErr = fmt.Sprintf("%v\n%s", err, out)
			return
		}
		f, err := os.Open(bin)
		if err != nil {
			c44BuildErr = err.Error()
			return
		}
		c44BinFile = f
	})
	if c44BinFile == nil {
		// Not a property violation: the tree under test cannot be built.
		fmt.Printf("C44: cannot build %s/cmd/elvish (inconclusive): %s\n", c44Repo(), c44BuildErr)
		os.Exit(2)
	}
	return "/proc/self/fd/" + strconv.Itoa(int(c44BinFile.Fd()))
}

// ---- JSON-RPC client ----------------------------------------------------------------

type c44Msg struct {
	raw map[string]json.RawMessage
	err error // framing / transport error; io.EOF = server closed its output
}

type c44Client struct {
	cmd    *exec.Cmd
	stdin  io.WriteCloser
	msgs   chan c44Msg
	stderr *c44Buf
	dir    string
	queue  []map[string]json.RawMessage // notifications received while waiting for something else
	nextID int
	waited chan error
}

type c44Buf struct {
	mu sync.Mutex
	b  bytes.Buffer
}

func (b *c44Buf) Write(p []byte) (int, error) {
	b.mu.Lock()
	defer b.mu.Unlock()
	if b.b.Len() < 1<<16 {
		b.b.Write(p)
	}
	return len(p), nil
}

func (b *c44Buf) String() string {
	b.mu.Lock()
	defer b.mu.Unlock()
	s := b.b.String()
	if len(s) > 3000 {
		s = s[:3000] + "…"
	}
	return s
}

const c44Wait = 120 * time.Second

func c44Start() (*c44Client, error) {
	bin := c44Binary()
	dir, err := os.MkdirTemp(os.Getenv("VERIF_WORK"), "verif-c44-cwd-")
	if err != nil {
		return nil, fmt.Errorf("harness: %v", err)
	}
	cmd := exec.Command(bin, "-lsp")
	cmd.Dir = dir
	cmd.Env = []string{"PATH=" + dir, "HOME=" + dir, "XDG_CONFIG_HOME=" + dir, "XDG_STATE_HOME=" + dir, "XDG_DATA_HOME=" + dir, "TMPDIR=" + dir}
	c := &c44Client{cmd: cmd, msgs: make(chan c44Msg, 256), stderr: &c44Buf{}, dir: dir, nextID: 1, waited: make(chan error, 1)}
	cmd.Stderr = c.stderr
	if c.stdin, err = cmd.StdinPipe(); err != nil {
		os.RemoveAll(dir)
		return nil, fmt.Errorf("harness: %v", err)
	}
	stdout, err := cmd.StdoutPipe()
	if err != nil {
		os.RemoveAll(dir)
		return nil, fmt.Errorf("harness: %v", err)
	}
	if err := cmd.Start(); err != nil {
		os.RemoveAll(dir)
		return nil, fmt.Errorf("harness: cannot start the server: %v", err)
	}
	// The server keeps the (now unlinked, empty) directory as its working
	// directory and PATH; nothing is left on disk.
	os.RemoveAll(dir)
	go func() {
		rd := bufio.NewReaderSize(stdout, 1<<16)
		for {
			m, err := c44ReadMsg(rd)
			if err != nil {
				c.msgs <- c44Msg{err: err}
				close(c.msgs)
				io.Copy(io.Discard, rd)
				c.waited <- cmd.Wait()
				return
			}
			c.msgs <- c44Msg{raw: m}
		}
	}()
	return c, nil
}

// c44ReadMsg reads one framed message: header lines ended by CRLF, an empty
// line, then exactly Content-Length bytes holding one JSON object.
func c44ReadMsg(rd *bufio.Reader) (map[string]json.RawMessage, error) {
	length := -1
	first := true
	for {
		line, err := rd.ReadString('\n')
		if err != nil {
			if err == io.EOF && first && line == "" {
				return nil, io.EOF
			}
			return nil, fmt.Errorf("output ends inside a header (%q): %v", line, err)
		}
		first = false
		if !strings.HasSuffix(line, "\r\n") {
			return nil, fmt.Errorf("header line %q is not terminated by CRLF", line)
		}
		line = strings.TrimSuffix(line, "\r\n")
		if line == "" {
			break
		}
		name, value, ok := strings.Cut(line, ":")
		if !ok {
			return nil, fmt.Errorf("malformed header line %q", line)
		}
		if strings.EqualFold(strings.TrimSpace(name), "Content-Length") {
			n, err := strconv.Atoi(strings.TrimSpace(value))
			if err != nil || n < 0 {
				return nil, fmt.Errorf("bad Content-Length %q", value)
			}
			length = n
		}
	}
	if length < 0 {
		return nil, fmt.Errorf("message without Content-Length header")
	}
	body := make([]byte, length)
	if _, err := io.ReadFull(rd, body); err != nil {
		return nil, fmt.Errorf("output ends inside a message body of %d bytes: %v", length, err)
	}
	var m map[string]json.RawMessage
	if err := json.Unmarshal(body, &m); err != nil {
		return nil, fmt.Errorf("message body is not a JSON object: %v: %s", err, c44Clip(string(body)))
	}
	var ver string
	if json.Unmarshal(m["jsonrpc"], &ver) != nil || ver != "2.0" {
		return nil, fmt.Errorf("message without \"jsonrpc\":\"2.0\": %s", c44Clip(string(body)))
	}
	return m, nil
}

func c44Clip(s string) string {
	if len(s) > 600 {
		return s[:600] + "…"
	}
	return s
}

func (c *c44Client) send(msg map[string]any) error {
	msg["jsonrpc"] = "2.0"
	b, err := json.Marshal(msg)
	if err != nil {
		return fmt.Errorf("harness: %v", err)
	}
	_, err = fmt.Fprintf(c.stdin, "Content-Length: %d\r\n\r\n%s", len(b), b)
	if err != nil {
		return fmt.Errorf("the server no longer reads its input: %v; %s", err, c.dead())
	}
	return nil
}

func (c *c44Client) dead() string {
	return fmt.Sprintf("stderr of the server: %q", c.stderr.String())
}

func (c *c44Client) next() (map[string]json.RawMessage, error) {
	select {
	case m, ok := <-c.msgs:
		if !ok {
			return nil, fmt.Errorf("the server exited; %s", c.dead())
		}
		if m.err == io.EOF {
			return nil, fmt.Errorf("the server closed its output (crashed or exited); %s", c.dead())
		}
		if m.err != nil {
			return nil, fmt.Errorf("ill-formed output: %v; %s", m.err, c.dead())
		}
		return m.raw, nil
	case <-time.After(c44Wait):
		return nil, fmt.Errorf("no message from the server within %v; %s", c44Wait, c.dead())
	}
}

// request sends a request and returns its response.
func (c *c44Client) request(method string, params any) (map[string]json.RawMessage, error) {
	id := c.nextID
	c.nextID++
	if err := c.send(map[string]any{"id": id, "method": method, "params": params}); err != nil {
		return nil, err
	}
	for {
		m, err := c.next()
		if err != nil {
			return nil, fmt.Errorf("waiting for the response to %s (id %d): %v", method, id, err)
		}
		if _, isCall := m["method"]; isCall {
			if _, hasID := m["id"]; hasID {
				return nil, fmt.Errorf("unexpected request from the server: %s", c44Show(m))
			}
			c.queue = append(c.queue, m)
			continue
		}
		var got int
		if err := json.Unmarshal(m["id"], &got); err != nil || got != id {
			return nil, fmt.Errorf("waiting for the response to %s (id %d), got %s", method, id, c44Show(m))
		}
		_, hasResult := m["result"]
		errRaw, hasError := m["error"]
		if hasError && string(errRaw) == "null" {
			hasError = false
		}
		if hasResult == hasError {
			return nil, fmt.Errorf("response to %s must have exactly one of result and error: %s", method, c44Show(m))
		}
		if hasError {
			var e struct {
				Code    *int    `json:"code"`
				Message *string `json:"message"`
			}
			if json.Unmarshal(errRaw, &e) != nil || e.Code == nil || e.Message == nil {
				return nil, fmt.Errorf("ill-formed error object in the response to %s: %s", method, c44Show(m))
			}
		}
		return m, nil
	}
}

// diagnostics waits for the publishDiagnostics notification for uri.
func (c *c44Client) diagnostics(uri string) (json.RawMessage, error) {
	take := func(m map[string]json.RawMessage) (json.RawMessage, bool, error) {
		var method string
		json.Unmarshal(m["method"], &method)
		if method != "textDocument/publishDiagnostics" {
			return nil, false, fmt.Errorf("unexpected notification %s", c44Show(m))
		}
		var p struct {
			URI         string          `json:"uri"`
			Diagnostics json.RawMessage `json:"diagnostics"`
		}
		if err := json.Unmarshal(m["params"], &p); err != nil || p.Diagnostics == nil {
			return nil, false, fmt.Errorf("ill-formed publishDiagnostics %s", c44Show(m))
		}
		if p.URI != uri {
			return nil, false, fmt.Errorf("publishDiagnostics for %q while only %q was updated: %s", p.URI, uri, c44Show(m))
		}
		return p.Diagnostics, true, nil
	}
	if len(c.queue) > 0 {
		m := c.queue[0]
		c.queue = c.queue[1:]
		d, _, err := take(m)
		return d, err
	}
	m, err := c.next()
	if err != nil {
		return nil, fmt.Errorf("waiting for publishDiagnostics of %s: %v", uri, err)
	}
	if _, isCall := m["method"]; !isCall {
		return nil, fmt.Errorf("waiting for publishDiagnostics of %s, got a response nobody asked for: %s", uri, c44Show(m))
	}
	d, _, err := take(m)
	return d, err
}

func c44Show(m map[string]json.RawMessage) string {
	b, _ := json.Marshal(m)
	return c44Clip(string(b))
}

// stop ends the session; alive reports whether the server was still running.
func (c *c44Client) stop() {
	c.stdin.Close()
	select {
	case <-c.waited:
	case <-time.After(5 * time.Second):
		c.cmd.Process.Kill()
		<-c.waited
	}
}

// ---- the case -------------------------------------------------------------------------

type c44Op struct {
	K    string `json:"k"` // open, change, hover, complete, badmethod
	Doc  int    `json:"doc"`
	Text string `json:"text,omitempty"`
	Line int    `json:"line"`
	Char int    `json:"char"`
	Why  string `json:"why,omitempty"` // how the position was chosen (for the histogram only)
}

type c44Session struct {
	Ops []c44Op `json:"ops"`
}

func c44URI(session, i int) string { return fmt.Sprintf("file:///tmp/verif-s%d-d%d.elv", session, i) }

func c44GenSession(t *rapid.T) c44Session {
	var s c44Session
	texts := map[int]string{}
	n := rapid.IntRange(3, 14).Draw(t, "nops")
	for i := 0; i < n; i++ {
		op := c44Op{Doc: rapid.SampledFrom([]int{0, 0, 0, 1, 1, 2}).Draw(t, "doc")}
		k := rapid.SampledFrom([]string{"hover", "complete", "change", "hover", "complete", "open", "change", "badmethod"}).Draw(t, "k")
		if i == 0 {
			k = "open"
		}
		_, isOpen := texts[op.Doc]
		if !isOpen && (k == "hover" || k == "complete") && rapid.IntRange(0, 4).Draw(t, "unopened") > 0 {
			k = "open"
		}
		if !isOpen && k == "change" {
			k = "open" // the protocol only allows didChange on an open document
		}
		op.K = k
		switch k {
		case "open", "change":
			op.Text = c44GenDoc(t, "text", 10)
			texts[op.Doc] = op.Text
		case "hover", "complete":
			p, why := c44GenPos(t, texts[op.Doc])
			op.Line, op.Char, op.Why = p.Line, p.Char, why
		}
		s.Ops = append(s.Ops, op)
	}
	return s
}

// ---- the oracle -------------------------------------------------------------------------

type c44Range struct {
	Start c44Pos `json:"start"`
	End   c44Pos `json:"end"`
}

type c44JSONPos struct {
	Line      *int `json:"line"`
	Character *int `json:"character"`
}

type c44JSONRange struct {
	Start c44JSONPos `json:"start"`
	End   c44JSONPos `json:"end"`
}

func (r c44JSONRange) get() (c44Range, bool) {
	if r.Start.Line == nil || r.Start.Character == nil || r.End.Line == nil || r.End.Character == nil {
		return c44Range{}, false
	}
	return c44Range{c44Pos{*r.Start.Line, *r.Start.Character}, c44Pos{*r.End.Line, *r.End.Character}}, true
}

func c44CheckDiagnostics(raw json.RawMessage, uri, text string) error {
	var ds []struct {
		Range *c44JSONRange `json:"range"`
	}
	if err := json.Unmarshal(raw, &ds); err != nil {
		return fmt.Errorf("diagnostics is not a list of objects: %s", c44Clip(string(raw)))
	}
	_, err := parse.Parse(parse.Source{Name: uri, Code: text}, parse.Config{})
	perrs := parse.UnpackErrors(err)
	tab := c44Table(text)
	describe := func() string {
		var parts []string
		for _, e := range perrs {
			parts = append(parts, fmt.Sprintf("[%d,%d) %s", e.Context.From, e.Context.To, e.Message))
		}
		return fmt.Sprintf("parse errors of %q: %s; published: %s", text, strings.Join(parts, "; "), c44Clip(string(raw)))
	}
	if len(ds) != len(perrs) {
		return fmt.Errorf("%d diagnostics published, the document has %d parse errors; %s", len(ds), len(perrs), describe())
	}
	var got []c44Range
	for _, d := range ds {
		if d.Range == nil {
			return fmt.Errorf("diagnostic without range; %s", describe())
		}
		r, ok := d.Range.get()
		if !ok {
			return fmt.Errorf("diagnostic with an incomplete range; %s", describe())
		}
		got = append(got, r)
	}
	// match every parse error with a distinct published range (a range between
	// CR and LF has two acceptable conversions)
	used := make([]bool, len(got))
	for _, e := range perrs {
		found := false
		for i, g := range got {
			if used[i] {
				continue
			}
			okS, okE := false, false
			for _, p := range c44PosOf(tab, e.Context.From) {
				okS = okS || p == g.Start
			}
			for _, p := range c44PosOf(tab, e.Context.To) {
				okE = okE || p == g.End
			}
			if okS && okE {
				used[i], found = true, true
				break
			}
		}
		if !found {
			want := fmt.Sprintf("%v-%v", c44PosOf(tab, e.Context.From), c44PosOf(tab, e.Context.To))
			return fmt.Errorf("no published diagnostic has the range of parse error [%d,%d) = %s (line,character in UTF-16 units); %s", e.Context.From, e.Context.To, want, describe())
		}
	}
	return nil
}

func c44CheckHover(m map[string]json.RawMessage) error {
	if _, isErr := m["error"]; isErr {
		return nil // a well-formed error object (checked by request) is a reply
	}
	if string(m["result"]) == "null" {
		return nil
	}
	var h struct {
		Contents *struct {
			Kind  *string `json:"kind"`
			Value *string `json:"value"`
		} `json:"contents"`
	}
	if err := json.Unmarshal(m["result"], &h); err != nil || h.Contents == nil || h.Contents.Kind == nil || h.Contents.Value == nil {
		return fmt.Errorf("hover result is neither null nor a Hover with MarkupContent: %s", c44Show(m))
	}
	if *h.Contents.Kind != "markdown" && *h.Contents.Kind != "plaintext" {
		return fmt.Errorf("hover contents kind %q: %s", *h.Contents.Kind, c44Show(m))
	}
	return nil
}

func c44CheckCompletion(m map[string]json.RawMessage, text string) error {
	if _, isErr := m["error"]; isErr {
		return nil // a well-formed error object (checked by request) is a reply
	}
	if string(m["result"]) == "null" {
		return nil
	}
	var items []struct {
		Label    *string `json:"label"`
		TextEdit *struct {
			Range   *c44JSONRange `json:"range"`
			NewText *string       `json:"newText"`
		} `json:"textEdit"`
	}
	if err := json.Unmarshal(m["result"], &items); err != nil {
		return fmt.Errorf("completion result is not a list of items: %s", c44Show(m))
	}
	tab := c44Table(text)
	for i, it := range items {
		if it.Label == nil {
			return fmt.Errorf("completion item %d has no label: %s", i, c44Show(m))
		}
		if it.TextEdit == nil {
			continue
		}
		if it.TextEdit.Range == nil || it.TextEdit.NewText == nil {
			return fmt.Errorf("completion item %d has an incomplete textEdit: %s", i, c44Show(m))
		}
		r, ok := it.TextEdit.Range.get()
		if !ok {
			return fmt.Errorf("completion item %d has an incomplete range: %s", i, c44Show(m))
		}
		if !c44ValidPos(tab, r.Start) || !c44ValidPos(tab, r.End) || r.End.less(r.Start) {
			return fmt.Errorf("completion item %d (%q): range (%d,%d)-(%d,%d) is not a range of positions of the document %q", i, *it.Label, r.Start.Line, r.Start.Char, r.End.Line, r.End.Char, text)
		}
	}
	return nil
}

// c44Init performs the initialize handshake.
func c44Init(c *c44Client) error {
	m, err := c.request("initialize", map[string]any{"processId": nil, "rootUri": nil, "capabilities": map[string]any{}})
	if err != nil {
		return fmt.Errorf("initialize: %v", err)
	}
	var init struct {
		Capabilities map[string]json.RawMessage `json:"capabilities"`
	}
	if json.Unmarshal(m["result"], &init) != nil || init.Capabilities == nil {
		return fmt.Errorf("initialize: result without capabilities: %s", c44Show(m))
	}
	return c.send(map[string]any{"method": "initialized", "params": map[string]any{}})
}

// Seven sessions out of eight run on a server shared with earlier sessions
// (under URIs of their own, so that the documents of different sessions never
// meet); which ones is a function of the case. A failure on the shared server
// is re-run on a fresh one.
var (
	c44Shared    *c44Client
	c44SessionNo int
)

func c44CheckSession(s c44Session) error {
	raw, _ := json.Marshal(s)
	h := fnv.New32a()
	h.Write(raw)
	if h.Sum32()%8 == 0 {
		return c44Fresh(s)
	}
	if c44Shared == nil {
		c, err := c44Start()
		if err != nil {
			return err
		}
		if err := c44Init(c); err != nil {
			c.stop()
			return err
		}
		c44Shared = c
	}
	err := c44RunSession(c44Shared, s)
	if err == nil {
		return nil
	}
	c44Shared.stop()
	c44Shared = nil
	if err2 := c44Fresh(s); err2 != nil {
		return err2
	}
	return fmt.Errorf("%v (on a server that had served earlier sessions; the same session passes on a fresh server)", err)
}

func c44Fresh(s c44Session) error {
	c, err := c44Start()
	if err != nil {
		return err
	}
	defer c.stop()
	if err := c44Init(c); err != nil {
		return err
	}
	return c44RunSession(c, s)
}

func c44RunSession(c *c44Client, s c44Session) error {
	c44SessionNo++
	session := c44SessionNo
	c.queue = nil
	fail := func(i int, op c44Op, err error) error {
		return fmt.Errorf("operation %d (%s doc %d at %d:%d): %v", i, op.K, op.Doc, op.Line, op.Char, err)
	}
	var err error
	texts := map[int]string{}
	version := 0
	for i, op := range s.Ops {
		uri := c44URI(session, op.Doc)
		switch op.K {
		case "open", "change":
			version++
			if op.K == "open" {
				err = c.send(map[string]any{"method": "textDocument/didOpen", "params": map[string]any{
					"textDocument": map[string]any{"uri": uri, "languageId": "elvish", "version": version, "text": op.Text}}})
			} else {
				err = c.send(map[string]any{"method": "textDocument/didChange", "params": map[string]any{
					"textDocument":   map[string]any{"uri": uri, "version": version},
					"contentChanges": []any{map[string]any{"text": op.Text}}}})
			}
			if err != nil {
				return fail(i, op, err)
			}
			texts[op.Doc] = op.Text
			d, err := c.diagnostics(uri)
			if err != nil {
				return fail(i, op, err)
			}
			if err := c44CheckDiagnostics(d, uri, op.Text); err != nil {
				return fail(i, op, err)
			}
		case "hover", "complete":
			method := "textDocument/hover"
			if op.K == "complete" {
				method = "textDocument/completion"
			}
			m, err := c.request(method, map[string]any{
				"textDocument": map[string]any{"uri": uri},
				"position":     map[string]any{"line": op.Line, "character": op.Char}})
			if err != nil {
				return fail(i, op, err)
			}
			text, open := texts[op.Doc]
			if !open {
				continue // any well-formed response will do
			}
			if op.K == "hover" {
				err = c44CheckHover(m)
			} else {
				err = c44CheckCompletion(m, text)
			}
			if err != nil {
				return fail(i, op, fmt.Errorf("%v; document %q", err, text))
			}
		case "badmethod":
			m, err := c.request("textDocument/verifNoSuchMethod", map[string]any{})
			if err != nil {
				return fail(i, op, err)
			}
			if _, isErr := m["error"]; !isErr {
				return fail(i, op, fmt.Errorf("a method that does not exist was answered with a result: %s", c44Show(m)))
			}
		}
	}
	// Still alive and still answering.
	if _, err := c.request("textDocument/verifNoSuchMethod", map[string]any{}); err != nil {
		return fmt.Errorf("after the last operation: %v", err)
	}
	if len(c.queue) > 0 {
		return fmt.Errorf("unexpected extra notification: %s", c44Show(c.queue[0]))
	}
	return nil
}

func c44ClassSession(s c44Session) (string, bool) {
	// the most unusual position kind used, then the line-ending mix
	rank := map[string]int{"inside-surrogate-pair": 6, "past-eol+1": 5, "past-eol": 4, "past-last-line": 3, "huge": 2, "eol": 1, "end": 1, "exact": 0}
	best, crlf, astral, invalid := "", false, false, false
	for _, op := range s.Ops {
		if op.K == "hover" || op.K == "complete" {
			if best == "" || rank[op.Why] > rank[best] {
				best = op.Why
			}
		}
		if op.K == "open" || op.K == "change" {
			crlf = crlf || strings.Contains(op.Text, "\r")
			for _, r := range op.Text {
				astral = astral || r >= 0x10000
			}
			if _, err := parse.Parse(parse.Source{Name: "x", Code: op.Text}, parse.Config{}); err != nil {
				invalid = true
			}
		}
	}
	if best == "" {
		best = "no-requests"
	}
	_, _ = crlf, astral
	if invalid {
		return best + "/parse-errors", true
	}
	return best + "/valid-docs", best != "no-requests"
}

func init() {
	vs.Register(vs.Prop[c44Session]{
		Name:    "C44/session",
		Rule:    "sessions of 3-14 operations on up to 3 documents after initialize/initialized: didOpen, didChange (one full-text change), hover, completion, unknown method; documents as in C44/positions; request positions exact, at / past the end of a line (incl. +1 = inside CRLF for a client that counts CR), between surrogate halves, past the last line, huge; some requests go to documents that were never opened; class = most unusual position kind / document features; non-trivial = at least one request or a document with parse errors",
		Gen:     c44GenSession,
		Check:   c44CheckSession,
		Class:   c44ClassSession,
		Quick:   300, Thorough: 3000,
		Timeout: 10 * time.Minute,
	})
}

var _ = vs.Excluded
