package props

// C44 The language server answers every request and maps positions exactly.
//
// Sub-checks:
//   C44/positions  through the hooks lsp.VerifPositionFromIdx / VerifPositionToIdx:
//                  every rune-boundary offset not inside a CRLF pair maps to the
//                  position given by the harness's own conversion (UTF-16 code
//                  units, CR / LF / CRLF each one line break) and back to itself;
//                  arbitrary positions and offsets never crash and stay in range.
//   C44/session    a real `elvish -lsp` subprocess (built by the check from
//                  $VERIF_REPO, see c44_session_test.go) driven over stdio.
//
// The reference conversion is c44Table below; it shares nothing with
// pkg/lsp/server.go:walkString.

import (
	"fmt"
	"strings"
	"unicode/utf8"

	"pgregory.net/rapid"
	"src.elv.sh/pkg/lsp"
	"verif/vs"
)

type c44Pos struct{ Line, Char int }

func (p c44Pos) less(q c44Pos) bool {
	return p.Line < q.Line || (p.Line == q.Line && p.Char < q.Char)
}

// c44Entry is one addressable offset of a document.
type c44Entry struct {
	Off int
	Pos c44Pos
}

// c44Table lists, in increasing order, every byte offset of s that lies on a
// character boundary and not between the CR and LF of a CRLF pair, with its
// LSP position: line = number of line breaks before the offset (CRLF, lone CR
// and lone LF each count once), character = UTF-16 code units since the last
// line break. s must be valid UTF-8.
func c44Table(s string) []c44Entry {
	var out []c44Entry
	line, char := 0, 0
	for off := 0; off <= len(s); {
		out = append(out, c44Entry{off, c44Pos{line, char}})
		if off == len(s) {
			break
		}
		switch {
		case s[off] == '\r' && off+1 < len(s) && s[off+1] == '\n':
			off += 2
			line, char = line+1, 0
		case s[off] == '\r' || s[off] == '\n':
			off++
			line, char = line+1, 0
		default:
			r, w := utf8.DecodeRuneInString(s[off:])
			off += w
			if r >= 0x10000 {
				char += 2
			} else {
				char++
			}
		}
	}
	return out
}

// c44PosOf returns the acceptable positions of a byte offset: one for an offset
// in the table; for the offset between CR and LF, which has no position of its
// own, the end of the line or the start of the next one.
func c44PosOf(tab []c44Entry, off int) []c44Pos {
	for i, e := range tab {
		if e.Off == off {
			return []c44Pos{e.Pos}
		}
		if e.Off > off {
			if i > 0 {
				return []c44Pos{tab[i-1].Pos, e.Pos}
			}
			return []c44Pos{e.Pos}
		}
	}
	return []c44Pos{tab[len(tab)-1].Pos}
}

func c44ValidPos(tab []c44Entry, p c44Pos) bool {
	for _, e := range tab {
		if e.Pos == p {
			return true
		}
	}
	return false
}

// ---- document generator ---------------------------------------------------------

var c44Frags = []string{
	"\r\n", "\n", "\U0001F600", "\r", "echo ", "put ", "$pa", "\r\n", "$", "(", ")", "[", "]", "{", "}", "'", "\"", "a", "b", "世", "é", "\U00010400",
	"\n", "use str", "str:", "var x = ", "$x", "fn f {|a| ", " | ", "each ", "if ", "# c\U0001F600", "~", "&k=", ">", ";", " ", "\t",
	"e:", "nop ", "$e", "$@", "^\r\n", "^\n", "\\", "$nil", "put $tr", "ec", "[1 2]", "{|x| }", "?(", "*", "x=", "<", "'a\r\nb'", "\"\\u00e9\"", "\"\\",
	"\r\r", "\n\r", "\r\n\n", "\U0001F600\U0001F600", "a\u0301", "\u2028", "\x00", "\x7f", "builtin:", "edit:", "math:pow", "￿", "�", "퟿",
}

var c44Lines = []string{
	"echo hello", "put $paths", "var x = 1", "use str", "str:join , [a b]", "fn f {|a| put $a }", "each {|x| put $x } [1 2]",
	"if $true { put \U0001F600 }", "# comment \U0001F600\U0001F600", "put 世界 é", "echo '\U00010400' | each {|l| put $l }", "", "nop", "put \"a\\tb\"",
	"var \U0001F600 = 2", "put $\U0001F600", "math:pow 2 3", "put [&k=v][k]", "echo a ^", "put \uffff\U00010000\uffff", "put (echo \U0001F600)", "  put  x  ", "put a; put b",
}
var c44Tails = []string{"ec", "put $pa", "str:jo", "put $", "echo (", "put [", "e:", "put '\U0001F600", "$", "put $tr", "use ", "ech\U0001F600"}
var c44EOLs = []string{"\r\n", "\n", "\r", "\r\n", "\n"}

// c44GenDoc draws a document: either lines of valid Elvish joined by a mix of
// CRLF / LF / CR (possibly ending in an unfinished word, which is what a
// client asks completion for), or a sequence of arbitrary fragments.
func c44GenDoc(t *rapid.T, label string, max int) string {
	var sb strings.Builder
	if rapid.IntRange(0, 1).Draw(t, label+"mode") == 0 {
		n := rapid.SampledFrom([]int{3, 2, 4, 1, 6, 0}).Draw(t, label+"#l")
		for i := 0; i < n; i++ {
			sb.WriteString(rapid.SampledFrom(c44Lines).Draw(t, label+"l"))
			sb.WriteString(rapid.SampledFrom(c44EOLs).Draw(t, label+"e"))
		}
		if rapid.IntRange(0, 2).Draw(t, label+"tail?") == 0 {
			sb.WriteString(rapid.SampledFrom(c44Tails).Draw(t, label+"t"))
		}
		return sb.String()
	}
	n := rapid.SampledFrom([]int{5, 8, 3, max, 2, 1, 0}).Draw(t, label+"#")
	for i := 0; i < n; i++ {
		sb.WriteString(rapid.SampledFrom(c44Frags).Draw(t, label))
	}
	return sb.String()
}

// c44GenPos draws a position for the document: exact ones, past the end of a
// line, inside a CRLF pair (as a client counting CR as a character would send),
// between the halves of a surrogate pair, past the last line, very large.
func c44GenPos(t *rapid.T, text string) (c44Pos, string) {
	tab := c44Table(text)
	e := tab[rapid.IntRange(0, len(tab)-1).Draw(t, "entry")]
	// end of e's line
	eol := e.Pos
	for _, x := range tab {
		if x.Pos.Line == e.Pos.Line && x.Pos.Char > eol.Char {
			eol = x.Pos
		}
	}
	lastLine := tab[len(tab)-1].Pos.Line
	switch rapid.IntRange(0, 9).Draw(t, "posk") {
	case 0, 1, 2:
		return e.Pos, "exact"
	case 3:
		return c44Pos{e.Pos.Line, eol.Char + 1}, "past-eol+1"
	case 4:
		return c44Pos{e.Pos.Line, eol.Char + rapid.SampledFrom([]int{2, 3, 100, 65536}).Draw(t, "k")}, "past-eol"
	case 5:
		// a character whose UTF-16 length is 2
		var cands []c44Pos
		for i := 0; i+1 < len(tab); i++ {
			if tab[i+1].Pos.Line == tab[i].Pos.Line && tab[i+1].Pos.Char == tab[i].Pos.Char+2 {
				cands = append(cands, c44Pos{tab[i].Pos.Line, tab[i].Pos.Char + 1})
			}
		}
		if len(cands) > 0 {
			return rapid.SampledFrom(cands).Draw(t, "sur"), "inside-surrogate-pair"
		}
		return e.Pos, "exact"
	case 6:
		return c44Pos{lastLine + rapid.SampledFrom([]int{1, 2, 1000}).Draw(t, "k"), rapid.SampledFrom([]int{0, 1, 5}).Draw(t, "c")}, "past-last-line"
	case 7:
		return eol, "eol"
	case 8:
		return tab[len(tab)-1].Pos, "end"
	}
	return c44Pos{rapid.SampledFrom([]int{0, 1 << 31 - 1, 1 << 20}).Draw(t, "hl"), rapid.SampledFrom([]int{1<<31 - 1, 0, 1 << 20}).Draw(t, "hc")}, "huge"
}

// ---- C44/positions ----------------------------------------------------------------

type c44PosCase struct {
	S    string   `json:"s"`
	Pos  []c44Pos `json:"pos"`  // extra positions to convert
	Offs []int    `json:"offs"` // extra offsets (any value)
}

func c44GenPosCase(t *rapid.T) c44PosCase {
	var c c44PosCase
	c.S = c44GenDoc(t, "doc", 12)
	n := rapid.IntRange(0, 4).Draw(t, "npos")
	for i := 0; i < n; i++ {
		p, _ := c44GenPos(t, c.S)
		c.Pos = append(c.Pos, p)
	}
	m := rapid.IntRange(0, 3).Draw(t, "noff")
	for i := 0; i < m; i++ {
		c.Offs = append(c.Offs, rapid.IntRange(-2, len(c.S)+3).Draw(t, "off"))
	}
	return c
}

func c44CheckPos(c c44PosCase) error {
	s := c.S
	if !utf8.ValidString(s) {
		// outside the domain; conversions must still not crash
		for o := 0; o <= len(s); o++ {
			l, ch := lsp.VerifPositionFromIdx(s, o)
			lsp.VerifPositionToIdx(s, l, ch)
		}
		return nil
	}
	tab := c44Table(s)
	for _, e := range tab {
		l, ch := lsp.VerifPositionFromIdx(s, e.Off)
		if (c44Pos{l, ch}) != e.Pos {
			return fmt.Errorf("offset %d of %q converts to position (%d,%d), reference (%d,%d) [UTF-16 units, CR/LF/CRLF one line break each]", e.Off, s, l, ch, e.Pos.Line, e.Pos.Char)
		}
		back := lsp.VerifPositionToIdx(s, l, ch)
		if back != e.Off {
			return fmt.Errorf("offset %d of %q -> position (%d,%d) -> offset %d: no round trip", e.Off, s, l, ch, back)
		}
		// and from the reference position, should the first conversion be off
		if back := lsp.VerifPositionToIdx(s, e.Pos.Line, e.Pos.Char); back != e.Off {
			return fmt.Errorf("position (%d,%d) of %q converts to offset %d, reference %d", e.Pos.Line, e.Pos.Char, s, back, e.Off)
		}
	}
	for _, p := range c.Pos {
		o := lsp.VerifPositionToIdx(s, p.Line, p.Char)
		if o < 0 || o > len(s) {
			return fmt.Errorf("position (%d,%d) of %q converts to offset %d outside [0,%d]", p.Line, p.Char, s, o, len(s))
		}
	}
	for _, o := range c.Offs {
		l, ch := lsp.VerifPositionFromIdx(s, o)
		if l < 0 || ch < 0 {
			return fmt.Errorf("offset %d of %q converts to negative position (%d,%d)", o, s, l, ch)
		}
	}
	return nil
}

func c44ClassPos(c c44PosCase) (string, bool) {
	crlf := strings.Contains(c.S, "\r\n")
	cr := strings.Contains(strings.ReplaceAll(c.S, "\r\n", ""), "\r")
	astral := false
	for _, r := range c.S {
		if r >= 0x10000 {
			astral = true
		}
	}
	switch {
	case c.S == "":
		return "empty", false
	case crlf && astral:
		return "crlf+astral", true
	case crlf && cr:
		return "crlf+lone-cr", true
	case crlf:
		return "crlf", true
	case astral:
		return "astral", true
	case cr:
		return "lone-cr", true
	case strings.Contains(c.S, "\n"):
		return "lf", true
	}
	return "one-line-bmp", true
}

func init() {
	vs.Register(vs.Prop[c44PosCase]{
		Name:  "C44/positions",
		Rule:  "documents of 0-12 fragments of Elvish code (valid and invalid) with ASCII, BMP, astral and combining characters and CRLF / LF / CR line ends incl. CR CR, LF CR, CRLF LF; every addressable offset is converted both ways; extra positions past the end of a line, between surrogate halves, past the last line, huge; extra offsets incl. out of range and inside characters; non-trivial = non-empty document",
		Gen:   c44GenPosCase,
		Check: c44CheckPos,
		Class: c44ClassPos,
		Quick: 5000, Thorough: 100000,
		Known: []vs.Known[c44PosCase]{
			{Key: "C44:crlf-line-start", Case: c44PosCase{S: "a\r\nb"}},
			{Key: "C44:crlf-line-start", Case: c44PosCase{S: "\r\n\r\n\U0001F600\r\n"}},
		},
	})
}
