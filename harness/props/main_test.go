package props

import (
	"encoding/json"
	"fmt"
	"os"
	"testing"

	"verif/vs"
)

func TestMain(m *testing.M) {
	if w := os.Getenv("VERIF_WORKER"); w != "" {
		os.Exit(runWorker(w))
	}
	os.Exit(m.Run())
}

// workers maps a worker name to its entry point; the test binary re-executes
// itself with VERIF_WORKER=<name> for checks that need a child process.
var workers = map[string]func() int{}

func runWorker(name string) int {
	f := workers[name]
	if f == nil {
		fmt.Fprintln(os.Stderr, "unknown worker", name)
		return 2
	}
	return f()
}

// TestVerifList prints the registry for the driver.
func TestVerifList(t *testing.T) {
	b, _ := json.Marshal(vs.List())
	fmt.Printf("VERIF-LIST %s\n", b)
}

// TestProp runs the sub-check named by $VERIF_PROP.
func TestProp(t *testing.T) { vs.RunNamed(t) }

// FuzzProp is the coverage-guided variant of the sub-check named by $VERIF_PROP.
func FuzzProp(f *testing.F) { vs.FuzzNamed(f) }
