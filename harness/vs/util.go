package vs

import (
	"encoding/hex"
	"encoding/json"
	"os"
	"runtime"
	"strings"
	"unicode/utf8"
)

func dumpGoroutines() {
	buf := make([]byte, 1<<20)
	n := runtime.Stack(buf, true)
	os.Stdout.Write(buf[:n])
}

// B is a string of arbitrary bytes that survives JSON: valid UTF-8 without
// U+FFFD is written as a JSON string, anything else as {"hex": "..."}.
type B string

func (b B) MarshalJSON() ([]byte, error) {
	s := string(b)
	if utf8.ValidString(s) && !strings.ContainsRune(s, utf8.RuneError) {
		return json.Marshal(s)
	}
	return json.Marshal(map[string]string{"hex": hex.EncodeToString([]byte(s))})
}

func (b *B) UnmarshalJSON(data []byte) error {
	var s string
	if err := json.Unmarshal(data, &s); err == nil {
		*b = B(s)
		return nil
	}
	var m map[string]string
	if err := json.Unmarshal(data, &m); err != nil {
		return err
	}
	raw, err := hex.DecodeString(m["hex"])
	if err != nil {
		return err
	}
	*b = B(raw)
	return nil
}

// Bs converts a slice of B to strings.
func Bs(bs []B) []string {
	out := make([]string, len(bs))
	for i, b := range bs {
		out[i] = string(b)
	}
	return out
}
