// Package vs is the small framework every property check is written against:
// a property is a JSON-serialisable case type C, a rapid generator (or an
// enumerator) of C, and a pure oracle Check(C) error. The framework supplies
// counting, sampling, panic and timeout capture, replay files and known
// findings, so that each property only states domain, oracle and
// non-triviality rule.
package vs

import (
	"encoding/binary"
	"encoding/json"
	"flag"
	"fmt"
	"hash/fnv"
	"os"
	"path/filepath"
	"runtime"
	"runtime/debug"
	"sort"
	"strconv"
	"strings"
	"sync"
	"testing"
	"time"

	"pgregory.net/rapid"
)

// Entry is the type-erased registry entry of a sub-check.
type Entry struct {
	Name     string // "C06/random"
	Quick    int
	Thorough int
	Race     bool // wants the -race binary
	Shards   int  // thorough-tier process count (default 1 for enumerations, 8 otherwise)
	Rule     string
	Enum     bool
	FuzzSecs int // thorough tier: seconds of coverage-guided fuzzing of the same generator+oracle (0 = none)
	run      func(t *testing.T)
	fuzz     func(f *testing.F)
}

var registry = map[string]*Entry{}

// Prop describes one sub-check of a property.
type Prop[C any] struct {
	Name string // "C06/random"; the property id is the part before '/'
	// Rule is the stated rule for what is generated and what makes a case non-trivial.
	Rule string
	// Gen draws one case. Exactly one of Gen and Enum is set.
	Gen func(t *rapid.T) C
	// Enum enumerates a finite space completely (tier = "quick" or "thorough").
	Enum func(tier string, yield func(C) bool)
	// Check is the oracle: nil means the property held on this case.
	Check func(c C) error
	// Class labels a case for the histogram and says whether it is non-trivial.
	Class func(c C) (class string, nontrivial bool)
	// Quick / Thorough are the case counts per process for the two tiers.
	Quick, Thorough int
	Shards          int
	Race            bool
	// FuzzSecs > 0 additionally runs Go's coverage-guided fuzzer over the same
	// generator and oracle (bytes decoded by rapid.MakeFuzz) in the thorough tier.
	FuzzSecs int
	// Timeout is the per-case watchdog (default 60s). Expiry aborts the process
	// with exit status 3 after writing the case as a replay file; the driver
	// decides whether it is a reproducible hang.
	Timeout time.Duration
	// Known lists the regression cases of known findings (open or fixed).
	Known []Known[C]
}

// Known is the specific failing case of a recorded finding.
type Known[C any] struct {
	Key  string
	Case C
}

// Register adds the property to the registry (called from init functions).
func Register[C any](p Prop[C]) {
	if p.Timeout == 0 {
		p.Timeout = 60 * time.Second
	}
	if p.Shards == 0 {
		if p.Enum != nil {
			p.Shards = 1
		} else {
			p.Shards = 8
		}
	}
	if _, dup := registry[p.Name]; dup {
		panic("duplicate property " + p.Name)
	}
	registry[p.Name] = &Entry{Name: p.Name, Quick: p.Quick, Thorough: p.Thorough, Race: p.Race,
		Shards: p.Shards, Rule: p.Rule, Enum: p.Enum != nil, FuzzSecs: p.FuzzSecs,
		run: func(t *testing.T) { p.main(t) }, fuzz: func(f *testing.F) { p.fuzzMain(f) }}
}

// FuzzNamed runs the coverage-guided variant of the sub-check named by $VERIF_PROP.
func FuzzNamed(f *testing.F) {
	name := os.Getenv("VERIF_PROP")
	e := registry[name]
	if e == nil {
		f.Skip("VERIF_PROP not set or unknown")
	}
	e.fuzz(f)
}

func (p *Prop[C]) fuzzMain(f *testing.F) {
	if p.Gen == nil {
		f.Skip("enumerations are not fuzzed")
	}
	for _, n := range []int{0, 8, 64, 256, 1024} {
		b := make([]byte, n)
		for i := range b {
			b[i] = byte(i*131 + n)
		}
		f.Add(b)
	}
	f.Fuzz(rapid.MakeFuzz(func(rt *rapid.T) {
		c := p.Gen(rt)
		raw, jerr := json.Marshal(c)
		if jerr != nil {
			panic("case not serialisable: " + jerr.Error())
		}
		if err := p.safeCheck(c, raw); err != nil {
			kind := "violation"
			if strings.HasPrefix(err.Error(), "PANIC:") {
				kind = "panic"
			}
			path := p.writeReplay(kind, firstLine(err.Error()), raw)
			fmt.Printf("VERIF-FAIL %s %s\n", p.Name, path)
			rt.Fatalf("%s: %v\ncase: %s", p.Name, err, clip(string(raw), 2000))
		}
	}))
}

// List returns the registry sorted by name.
func List() []*Entry {
	var es []*Entry
	for _, e := range registry {
		es = append(es, e)
	}
	sort.Slice(es, func(i, j int) bool { return es[i].Name < es[j].Name })
	return es
}

// RunNamed runs the sub-check named by $VERIF_PROP.
func RunNamed(t *testing.T) {
	name := os.Getenv("VERIF_PROP")
	if name == "" {
		t.Skip("VERIF_PROP not set")
	}
	e := registry[name]
	if e == nil {
		t.Fatalf("unknown property %q", name)
	}
	e.run(t)
}

// Tier is "quick" or "thorough".
func Tier() string {
	if os.Getenv("VERIF_TIER") == "thorough" {
		return "thorough"
	}
	return "quick"
}

// Root is the /verif directory.
func Root() string {
	if r := os.Getenv("VERIF_ROOT"); r != "" {
		return r
	}
	return "/verif"
}

// PropID returns "C06" for "C06/random".
func PropID(name string) string {
	if i := strings.IndexByte(name, '/'); i >= 0 {
		return name[:i]
	}
	return name
}

// ---------------------------------------------------------------------------
// statistics

type stats struct {
	mu        sync.Mutex
	name      string
	evals     int
	classes   map[string]int
	distinct  map[uint64]struct{}
	samples   []json.RawMessage
	excluded  map[string]int
	failed    bool
	known     []string
	notes     []string
	start     time.Time
	nextSamp  int
	exhausted bool
}

var cur *stats

// Excluded counts a case (or a shape) that the generator or oracle left out by
// construction, with the stated reason.
func Excluded(reason string) {
	if cur == nil {
		return
	}
	cur.mu.Lock()
	if !cur.failed {
		cur.excluded[reason]++
	}
	cur.mu.Unlock()
}

// Note records a free-text remark in the evidence.
func Note(format string, args ...any) {
	if cur == nil {
		return
	}
	cur.mu.Lock()
	if len(cur.notes) < 50 {
		cur.notes = append(cur.notes, fmt.Sprintf(format, args...))
	}
	cur.mu.Unlock()
}

func (s *stats) record(class string, nontrivial bool, raw []byte) {
	s.mu.Lock()
	defer s.mu.Unlock()
	if s.failed {
		return // shrinking re-executions are not counted
	}
	s.evals++
	s.classes[class]++
	if nontrivial {
		h := fnv.New64a()
		h.Write(raw)
		k := h.Sum64()
		if _, ok := s.distinct[k]; !ok {
			s.distinct[k] = struct{}{}
			if len(s.distinct) >= s.nextSamp && len(s.samples) < 8 && len(raw) < 4000 {
				s.samples = append(s.samples, json.RawMessage(append([]byte(nil), raw...)))
				if s.nextSamp < 1 {
					s.nextSamp = 1
				}
				s.nextSamp *= 7
			}
		}
	}
}

func (s *stats) flush() {
	dir := os.Getenv("VERIF_STATS")
	if dir == "" {
		return
	}
	s.mu.Lock()
	defer s.mu.Unlock()
	base := filepath.Join(dir, strings.ReplaceAll(s.name, "/", "_")+"."+strconv.Itoa(os.Getpid()))
	out := map[string]any{
		"name":        s.name,
		"evaluations": s.evals,
		"distinct":    len(s.distinct),
		"classes":     s.classes,
		"samples":     s.samples,
		"excluded":    s.excluded,
		"known":       s.known,
		"notes":       s.notes,
		"failed":      s.failed,
		"exhaustive":  s.exhausted,
		"wall_s":      time.Since(s.start).Seconds(),
	}
	b, _ := json.MarshalIndent(out, "", " ")
	os.WriteFile(base+".json", b, 0o644)
	hs := make([]byte, 0, 8*len(s.distinct))
	for k := range s.distinct {
		hs = binary.LittleEndian.AppendUint64(hs, k)
	}
	os.WriteFile(base+".hashes", hs, 0o644)
}

// ---------------------------------------------------------------------------
// known findings

type finding struct {
	Property string `json:"property"`
	Key      string `json:"key"`
	Status   string `json:"status"` // "open" | "fixed"
	Commit   string `json:"commit,omitempty"`
	What     string `json:"what"`
}

var (
	findingsOnce sync.Once
	findings     map[string]finding
)

func loadFindings() {
	findings = map[string]finding{}
	b, err := os.ReadFile(filepath.Join(Root(), "known_findings.json"))
	if err != nil {
		return
	}
	var doc struct {
		Findings []finding `json:"findings"`
	}
	if json.Unmarshal(b, &doc) != nil {
		return
	}
	for _, f := range doc.Findings {
		findings[f.Key] = f
	}
}

// KnownOpen reports whether key is listed as an open (unrepaired) finding.
// Generators use it to exclude exactly that shape by construction.
func KnownOpen(key string) bool {
	findingsOnce.Do(loadFindings)
	f, ok := findings[key]
	return ok && f.Status == "open"
}

// ---------------------------------------------------------------------------
// running

type replayFile struct {
	Property string          `json:"property"`
	Name     string          `json:"name"`
	Kind     string          `json:"kind"` // "violation" | "timeout" | "panic"
	Note     string          `json:"note"`
	Case     json.RawMessage `json:"case"`
}

func replayDir() string {
	if d := os.Getenv("VERIF_REPLAY_DIR"); d != "" {
		return d
	}
	return filepath.Join(Root(), "replays")
}

func (p *Prop[C]) writeReplay(kind, note string, raw []byte) string {
	dir := replayDir()
	os.MkdirAll(dir, 0o755)
	path := filepath.Join(dir, strings.ReplaceAll(p.Name, "/", "_")+"-"+strconv.Itoa(os.Getpid())+"-last.json")
	b, _ := json.MarshalIndent(replayFile{Property: PropID(p.Name), Name: p.Name, Kind: kind, Note: note, Case: raw}, "", " ")
	os.WriteFile(path, b, 0o644)
	return path
}

// safeCheck runs the oracle under recover and the watchdog.
func (p *Prop[C]) safeCheck(c C, raw []byte) (err error) {
	done := make(chan struct{})
	go func() {
		defer close(done)
		defer func() {
			if r := recover(); r != nil {
				err = fmt.Errorf("PANIC: %v\n%s", r, trimStack(debug.Stack()))
			}
		}()
		err = p.Check(c)
	}()
	timeout := p.Timeout
	if m := os.Getenv("VERIF_TIMEOUT_MULT"); m != "" {
		if k, e := strconv.Atoi(m); e == nil && k > 0 {
			timeout *= time.Duration(k)
		}
	}
	timer := time.NewTimer(timeout)
	defer timer.Stop()
	// A case that does not terminate may also allocate without bound and take
	// the machine down long before the watchdog expires: a heap beyond the
	// limit (default 4 GiB, VERIF_MEM_LIMIT_MB) ends the case like an expiry.
	limitMB := uint64(4096)
	if m := os.Getenv("VERIF_MEM_LIMIT_MB"); m != "" {
		if k, e := strconv.ParseUint(m, 10, 64); e == nil && k > 0 {
			limitMB = k
		}
	}
	mem := time.NewTicker(250 * time.Millisecond)
	defer mem.Stop()
	why := ""
wait:
	for {
		select {
		case <-done:
			return err
		case <-timer.C:
			why = fmt.Sprintf("case did not finish within %v", timeout)
			break wait
		case <-mem.C:
			var ms runtime.MemStats
			runtime.ReadMemStats(&ms)
			if ms.HeapAlloc>>20 > limitMB {
				why = fmt.Sprintf("case did not finish and holds %d MiB of heap (limit %d MiB)", ms.HeapAlloc>>20, limitMB)
				break wait
			}
		}
	}
	{
		p.writeReplay("timeout", why, raw)
		if cur != nil {
			cur.flush()
		}
		fmt.Printf("VERIF-TIMEOUT %s\n", p.Name)
		dumpGoroutines()
		os.Exit(3)
		return nil
	}
}

func trimStack(b []byte) string {
	s := string(b)
	if len(s) > 3000 {
		s = s[:3000] + "\n…"
	}
	return s
}

func (p *Prop[C]) main(t *testing.T) {
	if path := os.Getenv("VERIF_REPLAY"); path != "" {
		p.replay(t, path)
		return
	}
	s := &stats{name: p.Name, classes: map[string]int{}, distinct: map[uint64]struct{}{}, excluded: map[string]int{}, start: time.Now()}
	cur = s
	defer s.flush()

	// Known findings first: each recorded case is re-checked on every run.
	findingsOnce.Do(loadFindings)
	for _, k := range p.Known {
		raw, _ := json.Marshal(k.Case)
		err := p.safeCheck(k.Case, raw)
		f, listed := findings[k.Key]
		switch {
		case err != nil && listed && f.Status == "open":
			fmt.Printf("KNOWN-FINDING: property=%s %s: %s\n", PropID(p.Name), k.Key, f.What)
			s.known = append(s.known, k.Key)
		case err != nil:
			s.failed = true
			path := p.writeReplay("violation", firstLine(err.Error()), raw)
			fmt.Printf("VERIF-FAIL %s %s\n", p.Name, path)
			t.Fatalf("regression case %s fails: %v", k.Key, err)
		case listed && f.Status == "open":
			s.notes = append(s.notes, "open finding "+k.Key+" no longer reproduces")
		}
	}

	one := func(c C, fatal func(string, ...any)) {
		raw, jerr := json.Marshal(c)
		if jerr != nil {
			panic("case not serialisable: " + jerr.Error())
		}
		// The oracle runs first, under the watchdog: the class function often
		// runs the code under test too, and must not be the one to meet a hang.
		if err := p.safeCheck(c, raw); err != nil {
			s.mu.Lock()
			s.failed = true
			s.mu.Unlock()
			kind := "violation"
			if strings.HasPrefix(err.Error(), "PANIC:") {
				kind = "panic"
			}
			path := p.writeReplay(kind, firstLine(err.Error()), raw)
			fmt.Printf("VERIF-FAIL %s %s\n", p.Name, path)
			fatal("%s: %v\ncase: %s", p.Name, err, clip(string(raw), 2000))
		}
		class, nt := "case", true
		if p.Class != nil {
			func() {
				defer func() {
					if r := recover(); r != nil {
						class, nt = "class-panicked", true
					}
				}()
				class, nt = p.Class(c)
			}()
		}
		s.record(class, nt, raw)
	}

	if p.Enum != nil {
		complete := true
		p.Enum(Tier(), func(c C) bool {
			one(c, t.Fatalf)
			return true
		})
		s.exhausted = complete
		return
	}

	n := p.Quick
	if Tier() == "thorough" {
		n = p.Thorough
	}
	if v := os.Getenv("VERIF_CHECKS"); v != "" {
		if k, e := strconv.Atoi(v); e == nil {
			n = k
		}
	}
	flag.Set("rapid.checks", strconv.Itoa(n))
	flag.Set("rapid.nofailfile", "true")
	if os.Getenv("VERIF_SHRINKTIME") != "" {
		flag.Set("rapid.shrinktime", os.Getenv("VERIF_SHRINKTIME"))
	}
	rapid.Check(t, func(rt *rapid.T) {
		c := p.Gen(rt)
		one(c, rt.Fatalf)
	})
}

func (p *Prop[C]) replay(t *testing.T, path string) {
	b, err := os.ReadFile(path)
	if err != nil {
		t.Fatalf("cannot read replay: %v", err)
	}
	var rf replayFile
	if err := json.Unmarshal(b, &rf); err != nil {
		t.Fatalf("bad replay file: %v", err)
	}
	var c C
	if err := json.Unmarshal(rf.Case, &c); err != nil {
		t.Fatalf("bad replay case: %v", err)
	}
	if err := p.safeCheck(c, rf.Case); err != nil {
		fmt.Printf("VERIF-REPLAY-FAIL %s\n", p.Name)
		t.Fatalf("%s: %v", p.Name, err)
	}
	fmt.Printf("VERIF-REPLAY-OK %s\n", p.Name)
}

func firstLine(s string) string {
	if i := strings.IndexByte(s, '\n'); i >= 0 {
		s = s[:i]
	}
	return clip(s, 400)
}

func clip(s string, n int) string {
	if len(s) > n {
		return s[:n] + "…"
	}
	return s
}

// Errf is fmt.Errorf.
func Errf(format string, args ...any) error { return fmt.Errorf(format, args...) }
