#!/bin/bash
# usage: confirm_mut.sh <worktree> <A|B> <name> '<demo command run in worktree>' '<test packages>'
# Confirms a seeded change in its scratch worktree (patch applies, builds, demo fails with it and
# passes without it, the given test packages pass with it), then stores it under /verif/seeded/<name>/.
set -u
export GOFLAGS=-mod=mod GOPROXY=off GOSUMDB=off GOTOOLCHAIN=local
wt=$1; x=$2; name=$3; demo=$4; pkgs=$5
cd $wt || exit 2
git checkout -q -- . ; git status --short | grep -v '^??' && { echo "worktree not clean"; exit 2; }
log=/scratch/confirm_$name.log; : > $log
git apply --check SEED/$x/patch.diff || { echo "patch does not apply"; exit 2; }
# demo on clean tree must pass
bash -c "$demo" >> $log 2>&1; clean_rc=$?
git apply SEED/$x/patch.diff
go build ./... >> $log 2>&1; build_rc=$?
bash -c "$demo" >> $log 2>&1; mut_rc=$?
test_rc=0
if [ -n "$pkgs" ]; then
  # remove demo test files dropped into packages before running the suite
  git status --short | grep '^??' | awk '{print $2}' | grep -v '^SEED\|PROPERTY.json\|SEED_BRIEF' | xargs -r rm -rf
  go test -count=1 $pkgs >> $log 2>&1; test_rc=$?
fi
git checkout -q -- .
git status --short | grep '^??' | awk '{print $2}' | grep -v '^SEED\|PROPERTY.json\|SEED_BRIEF' | xargs -r rm -rf
echo "$name: demo clean rc=$clean_rc (want 0), build rc=$build_rc (want 0), demo mutated rc=$mut_rc (want !=0), tests rc=$test_rc (want 0)"
if [ $clean_rc -eq 0 ] && [ $build_rc -eq 0 ] && [ $mut_rc -ne 0 ] && [ $test_rc -eq 0 ]; then
  mkdir -p /verif/seeded/$name
  cp -r SEED/$x/* /verif/seeded/$name/
  echo CONFIRMED
else
  echo "NOT CONFIRMED (see $log)"
fi
