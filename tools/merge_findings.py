#!/usr/bin/env python3
"""Merges the known_findings.json copies of the development workspaces into
/verif/known_findings.json, applying the status overrides below (findings that
were repaired in /repo after the workspace recorded them as open)."""
import json, sys, os

FIXED = {
    "C35:numeric-reference-zero": "2f8cb4b",
    "C35:quote-entity": "353fdd3",
    "C35:html-block-closing-pre-tag": "fc33cd5",
    "C35:html-block-1-prefix-match": "d386880",
    "C35:list-start-after-quote-marker-interrupting-paragraph": "72045f7",
    "C35:empty-item-with-space-interrupts-paragraph": "146bd86",
    "C35:email-autolink-after-slash-or-question": "b587770",
    "C35:link-title-without-separator": "2999d8b",
    "C35:del-in-link-destination": "ee5c0d8",
    "C36:start-of-line-after-escaped-newline": "2248890",
    "C36:marker-only-line-is-thematic-break": "0b755b4",
    "C38:nul-short-matches-long-only": "dd77677",
    "C23:multi-starstar-duplicates": "7810ac0",
    "C23:hidden-dot-by-later-wildcard": "431e6a5",
    "C23:type-regular-symlink": "37233f0",
    "C27:exit-removes-foreign-socket": "98d3c53",
    "C27:listener-close-unlinks-successor-socket": "98d3c53",
    "C33:clone-of-empty-not-nil": "e3896a9",
    "C33:trim-drops-zero-width-at-segment-start": "90e6bc1",
    "C34:listbox-extendstyle-empty-right-spacing": "bd726f2",
    "C34:listbox-vertical-bottom-crop": "e41795c",
    "C34:textview-scrollby-empty": "55be2fc",
    "C43:new-word-inserted-at-end-of-whitespace": "fc750b9",
    "C18:peach-multi-reader-gone": "9d85244",
    "C18:run-parallel-reader-gone": "f65ff11",
    "C23:modifier-leaks-into-next-evaluation": "f472008",
    "C17:str-repeat-overflow-wraps": "a2e5b92",
    "C17:flag-name-panics": "a2537fc",
    "C17:value-input-from-write-mode-file-port-hangs": "448d719",
    "C17:nil-for-list-or-map-parameter": "ec711ac",
    "C36:del-in-link-destination-written-bare": "562dd02",
    "C18:only-values-stops-draining": "fcd24e6",
    "C20:run-parallel-go-fn-error-panics": "58ec5ef",
    "C20:bounded-peach-runs-one-more-after-break": "e6249ce",
    "C19:peach-semaphore-after-interrupt": "bee3df8",
    "C39:modules-map-race": "e51506e",
    "C39:toplevel-del-data-race": "3b8640f",
    "C21:defer-success-returns-ok-exception": "d7456ec",
    "C17:stdin-redirect-in-later-stage": "01a1a91",
    "C42:dup-closed-by-reredirect": "73b56e7",
    "C17:value-output-to-input-port": "4f75ee6",
    "C17:read-bytes-negative": "9ce461a",
    "C17:nil-for-function-or-exception-parameter": "5394790",
    "C17:eval-on-end-nil-ns": "e361ba9",
    "C17:file-is-tty-negative": "c2cdcaa",
    "C17:value-input-from-closed-port-hangs": "d6dff9e",
    "C17:randint-range-overflow": "23aa4e0",
    "C17:has-subseq-invalid-utf8": "055f66d",
}

root = os.path.dirname(os.path.dirname(os.path.abspath(__file__)))
path = os.path.join(root, "known_findings.json")
doc = json.load(open(path))
have = {f["key"]: f for f in doc["findings"]}
for ws in sys.argv[1:]:
    p = os.path.join(ws, "known_findings.json")
    if not os.path.exists(p):
        continue
    for f in json.load(open(p))["findings"]:
        have.setdefault(f["key"], f)
for key, f in have.items():
    if key in FIXED and f["status"] != "fixed":
        f["status"] = "fixed"
        f["commit"] = FIXED[key]
        what = f["what"]
        for pre in ("open: ", "OPEN: "):
            if what.startswith(pre):
                what = what[len(pre):]
        if what.startswith("property=%s " % f["property"]):
            what = what[len("property=%s " % f["property"]):]
        f["what"] = "fixed: property=%s %s %s" % (f["property"], FIXED[key], what)
doc["findings"] = sorted(have.values(), key=lambda f: f["key"])
json.dump(doc, open(path, "w"), indent=1, ensure_ascii=False)
print(len(doc["findings"]), "findings;", sum(1 for f in doc["findings"] if f["status"] == "open"), "open")
