#!/usr/bin/env python3
"""Regenerates /verif/MANIFEST.json from tools/props_meta.json (claimed checks)
and properties.jsonl (every property not claimed goes to not_applicable)."""
import json, os, subprocess

ROOT = os.path.dirname(os.path.dirname(os.path.abspath(__file__)))
meta = json.load(open(os.path.join(ROOT, "tools", "props_meta.json")))
props = [json.loads(l) for l in open(os.path.join(ROOT, "properties.jsonl"))]

hooks_commits = []
try:
    out = subprocess.run(["git", "-C", "/repo", "log", "--format=%h %s"], stdout=subprocess.PIPE, text=True).stdout
    hooks_commits = [l.split()[0] for l in out.splitlines() if l.split(" ", 1)[1].startswith("verif hook:")]
except Exception:
    pass

checks, na = [], []
for p in props:
    pid = p["id"]
    m = meta["claimed"].get(pid)
    if not m:
        na.append({"property_id": pid, "reason": meta["not_applicable"].get(pid, "check not built yet in this session; not claimed")})
        continue
    checks.append({
        "property_id": pid,
        "quick_cmd": "./check %s --tier quick" % pid,
        "thorough_cmd": "./check %s --tier thorough" % pid,
        "evidence_file": "/verif/evidence/%s.json" % pid,
        "replay_cmd_template": "./check %s --replay {path}" % pid,
        "engine": "rapid-harness",
        "level_claimed": {"category": m.get("level", "exploration"), "text": m["text"], "design_ref": "DESIGN.md section 6, " + pid},
        "level_note": m["note"],
        "technique": m["technique"],
    })

manifest = {
    "version": 1,
    "setup_cmd": "./check --setup",
    "hooks": {
        "guard": "verif",
        "enable": "go build/test -tags verif (the harness module replaces src.elv.sh with /repo and builds with -tags verif)",
        "baseline_off_cmd": "cd /repo && go test -vet=off -count=1 -timeout 25m ./...",
        "source_commits": hooks_commits,
        "add_only": True,
    },
    "engines": [{
        "name": "rapid-harness",
        "path": "/verif/harness",
        "serves_properties": [c["property_id"] for c in checks],
        "kind_free_text": "Go test binary (pgregory.net/rapid v1.3.0 generators + shrinking, enumerators for finite spaces, explicit oracles/models per property) driven by /verif/check, which rebuilds from /repo's working tree with -tags verif on every invocation",
    }],
    "checks": checks,
    "notes": "Every check is generated-input search against an explicit oracle (property-based testing / fuzzing). Exit 0 held, 1 violation, 2 inconclusive. Known findings: /verif/known_findings.json.",
    "not_applicable": na,
}
json.dump(manifest, open(os.path.join(ROOT, "MANIFEST.json"), "w"), indent=1)
print("claimed", len(checks), "not claimed", len(na))
