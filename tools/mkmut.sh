#!/bin/bash
# usage: mkmut.sh Cxx...  creates /tmp/mutCxx worktrees with brief and property record
for p in "$@"; do
  d=/tmp/mut$p
  [ -d $d ] || git -C /repo worktree add -q --detach $d HEAD
  cp /verif/tools/MUTANT_BRIEF.md $d/SEED_BRIEF.md
  python3 - "$p" "$d" <<'PY'
import json,sys
pid,d=sys.argv[1],sys.argv[2]
for l in open('/verif/properties.jsonl'):
    r=json.loads(l)
    if r['id']==pid:
        json.dump({k:r[k] for k in ('id','title','statement','quantifier','anchors')}, open(d+'/PROPERTY.json','w'), indent=1)
PY
done
