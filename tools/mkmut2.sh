#!/bin/bash
# Second round: worktrees /tmp/mut2Cxx with the brief, the property record and one-line summaries of the
# changes already seeded for that property (so that new ones use other mechanisms). Deliverables go to SEED/C and SEED/D.
for p in "$@"; do
  d=/tmp/mut2$p
  [ -d $d ] || git -C /repo worktree add -q --detach $d HEAD
  sed 's/mutants A and B/mutants C and D/; s#SEED/<A|B>/#SEED/<C|D>/#g' /verif/tools/MUTANT_BRIEF.md > $d/SEED_BRIEF.md
  python3 - "$p" "$d" <<'PY'
import json,sys,glob,os
pid,d=sys.argv[1],sys.argv[2]
for l in open('/verif/properties.jsonl'):
    r=json.loads(l)
    if r['id']==pid:
        json.dump({k:r[k] for k in ('id','title','statement','quantifier','anchors')}, open(d+'/PROPERTY.json','w'), indent=1)
with open(d+'/PRIOR.md','w') as f:
    f.write("# Changes already seeded for this property (do NOT repeat them or close variants; pick other functions, mechanisms and trigger conditions)\n\n")
    for m in sorted(glob.glob('/verif/seeded/%s-*/meta.json'%pid)):
        try:
            j=json.load(open(m))
            f.write("- %s\n  needs: %s\n" % (j.get('summary',''), j.get('needs','')))
        except Exception: pass
PY
done
