#!/usr/bin/env python3
"""Writes /verif/seeded/README.md: one row per seeded change (from meta.json) with the result of running the checks on it."""
import json, os, glob
root = os.path.dirname(os.path.dirname(os.path.abspath(__file__)))
res = {}
for l in open(os.path.join(root, "seeded", "RESULTS.tsv")):
    p = l.rstrip("\n").split("\t")
    if len(p) >= 3:
        res.setdefault(p[0], []).append((p[1], p[2]))
first_missed = set(open(os.path.join(root, "seeded", "FIRST_MISSED.txt")).read().split()) if os.path.exists(os.path.join(root, "seeded", "FIRST_MISSED.txt")) else set()
rows = []
for d in sorted(glob.glob(os.path.join(root, "seeded", "C*-*"))):
    name = os.path.basename(d)
    try:
        m = json.load(open(os.path.join(d, "meta.json")))
    except Exception:
        m = {}
    caught = ", ".join("%s by %s" % (r.lower(), c) for c, r in res.get(name, [])) or "not run"
    if name in first_missed:
        caught += " (missed at first; check strengthened)"
    rows.append("| %s | %s | %s | %s |" % (name, (m.get("summary") or "").replace("|", "\\|")[:260], (m.get("needs") or "").replace("|", "\\|")[:220], caught))
with open(os.path.join(root, "seeded", "README.md"), "w") as f:
    f.write("# Seeded changes\n\nEach directory holds `patch.diff` (against /repo HEAD at the time), the demonstration, and `meta.json` written by an independent agent that saw only the property text. Every change was confirmed in a scratch worktree (patch applies, builds, touched packages' tests pass, demonstration fails with it and passes without it) with `tools/confirm_mut.sh`, then the property's check was run against it with `tools/trymut.sh`.\n\n| id | change | needs | result |\n|---|---|---|---|\n")
    f.write("\n".join(rows) + "\n")
print(len(rows), "rows")
