#!/bin/sh
# Creates an isolated copy of /verif (without git data, binaries, evidence) for parallel development.
set -e
n=$1
mkdir -p /scratch
rm -rf /scratch/w$n
mkdir -p /scratch/w$n
rsync -a --exclude .git --exclude bin --exclude 'replays/*' --exclude 'evidence/*' /verif/ /scratch/w$n/
echo /scratch/w$n
