#!/bin/bash
# usage: round2.sh Cxx [test packages]  -> confirm SEED/C and SEED/D of /tmp/mut2Cxx and run the property's check on each
p=$1; pk=${2:-}
for v in C D; do
  [ -d /tmp/mut2$p/SEED/$v ] || { echo "$p-$v: no deliverable"; continue; }
  tools/confirm_mut.sh /tmp/mut2$p $v $p-$v "bash SEED/$v/demo.sh" "$pk" | tr '\n' ' ' | sed 's/demo clean rc=0 (want 0), build rc=0 (want 0), //'; echo
  [ -d /verif/seeded/$p-$v ] && tools/trymut.sh $p $p-$v /tmp/mut2$p | cut -c1-330
done
