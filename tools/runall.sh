#!/bin/bash
# usage: tools/runall.sh [tier] ID...   -> prints one line per property
tier=${TIER:-quick}
mkdir -p /scratch/runall
for id in "$@"; do
  s=$(date +%s)
  ./check $id --tier $tier > /scratch/runall/$id.$tier.log 2>&1
  rc=$?
  e=$(date +%s)
  echo "$id rc=$rc wall=$((e-s))s $(grep -c KNOWN-FINDING /scratch/runall/$id.$tier.log) known; $(grep -E '^(VIOLATION|INCONCLUSIVE)' /scratch/runall/$id.$tier.log | head -2 | tr '\n' ' ')"
done
