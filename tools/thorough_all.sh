#!/bin/bash
# runs the thorough tier of every property (or the given ones) once, one line per property
ids=${@:-C01 C02 C03 C04 C05 C06 C07 C08 C09 C10 C11 C12 C13 C14 C15 C16 C17 C18 C19 C20 C21 C22 C23 C24 C25 C26 C27 C28 C29 C30 C31 C32 C33 C34 C35 C36 C37 C38 C39 C40 C41 C42 C43 C44}
mkdir -p thorough_logs
for id in $ids; do
  s=$(date +%s)
  ./check $id --tier thorough > thorough_logs/$id.log 2>&1
  rc=$?
  echo "$id rc=$rc wall=$(( $(date +%s)-s ))s $(grep -E '^(VIOLATION|INCONCLUSIVE)' thorough_logs/$id.log | head -2 | tr '\n' ' ')"
done
