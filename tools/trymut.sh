#!/bin/bash
# usage: trymut.sh <property> <name> [worktree]   runs ./check <property> against the seeded change /verif/seeded/<name>/patch.diff
# applied in a scratch worktree (default /tmp/mut<property>), via VERIF_REPO. Prints CAUGHT/MISSED.
prop=$1; name=$2; wt=${3:-/tmp/mut$prop}
cd $wt && git checkout -q -- . && git apply /verif/seeded/$name/patch.diff || { echo "$name: cannot apply"; exit 2; }
cd /verif
VERIF_REPO=$wt ./check $prop ${TRY_ARGS:-} > /scratch/trymut_$name.log 2>&1; rc=$?
git -C $wt checkout -q -- .
git -C /verif checkout -q -- harness/go.mod
res=INCONCLUSIVE; [ $rc -eq 1 ] && res=CAUGHT; [ $rc -eq 0 ] && res=MISSED
grep -v "^$name	$prop	" /verif/seeded/RESULTS.tsv > /verif/seeded/.r 2>/dev/null; mv /verif/seeded/.r /verif/seeded/RESULTS.tsv 2>/dev/null
printf "%s\t%s\t%s\t%s\n" "$name" "$prop" "$res" "$(grep -m1 'note:' /scratch/trymut_$name.log | cut -c1-200)" >> /verif/seeded/RESULTS.tsv
if [ $rc -eq 1 ]; then echo "$name: CAUGHT by $prop: $(grep -m1 '^VIOLATION' /scratch/trymut_$name.log)"; grep -m2 "note:" /scratch/trymut_$name.log
elif [ $rc -eq 0 ]; then echo "$name: MISSED by $prop"
else echo "$name: rc=$rc INCONCLUSIVE"; tail -5 /scratch/trymut_$name.log; fi
